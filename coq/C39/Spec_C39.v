(* Spec_C39.v — the property's statement: Bugzilla's list-update semantics as the reference.
   A `set` replaces the list; otherwise removals are applied, then additions (values already
   present are not duplicated).  Lists denote sets: results are compared by membership. *)
From Coq Require Import List NArith ZArith Bool.
Import ListNotations.
From Verif Require Import Base.Val C39.Model_C39.

Definition apply (c : change) (l : list N) : list N :=
  match replace c with
  | Some s => s
  | None => let l' := keep_not_in (remove c) l in l' ++ keep_not_in l' (add c)
  end.

Definition same_set (a b : list N) : Prop := forall x, In x a <-> In x b.
Definition same_setb (a b : list N) : bool :=
  forallb (fun x => mem x b) a && forallb (fun x => mem x a) b.

(* Bugzilla's reading of the wire object of one list field *)
Definition apply_wire (w : list (N * list N)) (l : list N) : list N :=
  match w with
  | (0%N, s) :: _ => s
  | _ =>
      let rem := concat (map snd (filter (fun kv => N.eqb (fst kv) 2) w)) in
      let ad := concat (map snd (filter (fun kv => N.eqb (fst kv) 1) w)) in
      let l' := keep_not_in rem l in l' ++ keep_not_in l' ad
  end.

(* ---- executable form used on the IMPLEMENTATION's results in the cases files (comparison B) *)
Fixpoint lists_upto (alpha : list N) (n : nat) : list (list N) :=
  match n with
  | O => [[]]
  | S n' => let r := lists_upto alpha n' in
            r ++ concat (map (fun l => map (fun x => x :: l) alpha) (filter (fun l => Nat.eqb (length l) n') r))
  end.
Definition probe_lists : list (list N) := lists_upto [1;2;3;9]%N 3.

Definition dec_list (v : val) : option (list N) :=
  match v with
  | VL l => Some (map (fun e => match e with VZ z => Z.to_N z | _ => 0%N end) l)
  | _ => None
  end.
Definition dec_change (v : val) : option change :=
  match v with
  | VL [a; r; s] =>
      match dec_list a, dec_list r with
      | Some a', Some r' =>
          match s with
          | VNone => Some {| add := a'; remove := r'; replace := None |}
          | _ => match dec_list s with
                 | Some s' => Some {| add := a'; remove := r'; replace := Some s' |}
                 | None => None end
          end
      | _, _ => None
      end
  | _ => None
  end.

(* true = the recorded result of `a | b` is acceptable to the property *)
Definition spec_or_ok (i : change * change) (res : val) : bool :=
  match res with
  | VErr _ => true                                  (* refused *)
  | _ => match dec_change res with
         | Some c => forallb (fun l => same_setb (apply c l) (apply (snd i) (apply (fst i) l))) probe_lists
         | None => false
         end
  end.
