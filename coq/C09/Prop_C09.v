(* Prop_C09.v — the property theorems of C09 and nothing else. *)
From Coq Require Import List NArith ZArith Bool.
Import ListNotations.
From Verif Require Import Base.Val C09.Model_C09 C09.Spec_C09 C09.Proofs_C09 C09.Proofs2_C09.

(* every token list the grammar derives is accepted, with the tree the grammar assigns ... *)
Theorem grammar_accepted : forall c lf toks d, items c lf toks d -> parse c lf toks = Some d.
Proof. exact grammar_accepted_proof. Qed.
Print Assumptions grammar_accepted.

(* ... and nothing else is accepted: whatever DepSet.parse accepts is a sentence of the grammar *)
Theorem accepted_grammatical : forall c lf, arrow_reserved c lf ->
  forall toks d, parse c lf toks = Some d -> items c lf toks d.
Proof. exact accepted_grammatical_proof. Qed.
Print Assumptions accepted_grammatical.

(* str(parse(s)) parses again, to the SAME tree (hence to an equal DepSet), for every operator
   set / rename setting, given an element parser that reads back what it renders *)
Theorem parse_print_roundtrip : forall c lf, arrow_reserved c lf -> lf_good c lf ->
  forall toks d, parse c lf toks = Some d -> parse c lf (print d) = Some d.
Proof. exact parse_print_roundtrip_proof. Qed.
Print Assumptions parse_print_roundtrip.

(* by attribute kind: LICENSE, RESTRICT/PROPERTIES, SRC_URI with renames, REQUIRED_USE (EAPI>=5
   and EAPI 4) — no premise left *)
Theorem roundtrip_by_kind : forall kd toks d, (2 <= kd)%N ->
  parse (cfg_of kd) (lf_of kd []) toks = Some d ->
  parse (cfg_of kd) (lf_of kd []) (print d) = Some d.
Proof. exact roundtrip_by_kind_proof. Qed.
Print Assumptions roundtrip_by_kind.

(* unmatched "(" / ")" and operators or conditionals not followed by "(" are rejected *)
Theorem unbalanced_rejected : forall c lf, renames c = false -> forall toks,
  balance 0 toks = false \/ dangling c toks = true -> parse c lf toks = None.
Proof. exact unbalanced_rejected_proof. Qed.
Print Assumptions unbalanced_rejected.

(* PMS 8.3.4: a use-dep atom a[x?] / a[!x?] / a[x=] / a[!x=] read under a USE set (its expansion
   into use-conditional groups over plain atoms) is the plain atom evaluation computes *)
Theorem transitive_use_expansion : forall use S l, leaf_sat use S l = S (ev_leaf use l).
Proof. exact transitive_use_expansion_proof. Qed.
Print Assumptions transitive_use_expansion.

(* evaluate_depset(use) is conditional-free and is satisfied by exactly the token sets that
   satisfy the original read under use — for every tree, USE set and token set *)
Theorem evaluate_preserves_meaning : forall c use d,
  forallb leaves_wf d = true ->
  (tua c = true \/ existsb has_trans d = false) ->
  forallb cond_free (evaluate c use d) = true /\
  forall S use', sat_all use' S (evaluate c use d) = sat_all use S d.
Proof. exact evaluate_preserves_meaning_proof. Qed.
Print Assumptions evaluate_preserves_meaning.

(* ---------------------------------------------------------------- on strings *)
(* str.split() undoes " ".join() on tokens (non-empty, whitespace-free) *)
Theorem split_join : forall toks, forallb tok_ok toks = true -> split_ws (join_sp toks) = toks.
Proof. exact split_join_proof. Qed.
Print Assumptions split_join.

(* str(DepSet.parse(s)) parses again, to the same tree — stated on the strings themselves *)
Theorem parse_print_roundtrip_str : forall c lf, lf_good c lf -> lf_tok lf -> arrow_reserved c lf ->
  forall s d, parse_str c lf s = Some d -> parse_str c lf (print_str d) = Some d.
Proof. exact roundtrip_str_proof. Qed.
Print Assumptions parse_print_roundtrip_str.

Theorem roundtrip_str_by_kind : forall kd s d, (2 <= kd)%N ->
  parse_str (cfg_of kd) (lf_of kd []) s = Some d ->
  parse_str (cfg_of kd) (lf_of kd []) (print_str d) = Some d.
Proof. exact roundtrip_str_by_kind_proof. Qed.
Print Assumptions roundtrip_str_by_kind.

(* ---------------------------------------------------------------- rejection, clause by clause,
   every configuration (with renames the clauses speak about the structural positions [skel]) *)
Theorem unbalanced_rejected_all : forall c lf toks,
  balance 0 (skel c toks) = false \/ dangling c (skel c toks) = true \/ empty_group (skel c toks) = true ->
  parse c lf toks = None.
Proof. exact unbalanced_rejected_all_proof. Qed.
Print Assumptions unbalanced_rejected_all.

(* an operator or a conditional as the last structural token *)
Theorem dangling_at_end_rejected : forall c lf toks pre k,
  skel c toks = pre ++ [k] -> classify c k = TGroup -> parse c lf toks = None.
Proof. exact dangling_at_end_rejected_proof. Qed.
Print Assumptions dangling_at_end_rejected.

(* "( )" anywhere *)
Theorem empty_group_rejected : forall c lf t1 t2, renames c = false ->
  parse c lf (t1 ++ s_open :: s_close :: t2) = None.
Proof. exact empty_group_rejected_proof. Qed.
Print Assumptions empty_group_rejected.

(* ---------------------------------------------------------------- evaluation, every configuration *)
Theorem evaluate_any_config : forall c use d,
  forallb leaves_wf d = true ->
  no_cond (evaluate c use d) = true /\
  (forall S, sat_all use S (evaluate c use d) = sat_all use S d) /\
  (node_conds c d = false -> evaluate c use d = d) /\
  (node_conds c d = true \/ existsb has_trans d = false ->
   forallb cond_free (evaluate c use d) = true /\
   forall S use', sat_all use' S (evaluate c use d) = sat_all use S d).
Proof. exact evaluate_any_config_proof. Qed.
Print Assumptions evaluate_any_config.

(* flag-independence of the result is false exactly in the left-alone case *)
Theorem evaluate_left_alone_refuted :
  exists c use use' S d, forallb leaves_wf d = true /\ node_conds c d = false /\
    sat_all use' S (evaluate c use d) <> sat_all use S d.
Proof. exact evaluate_left_alone_refuted_proof. Qed.
Print Assumptions evaluate_left_alone_refuted.
