"""C12 — incremental token expansion follows left-to-right incremental semantics (DESIGN §6 C12).

Streams (every one: (A) implementation vs Model_C12 inside Coq; (B) implementation vs Spec_C12
inside Coq AND vs the last-writer-wins oracle written in plain Python below)
  expand    misc.incremental_expansion(tokens, orig, finalize)
  optimize  sorted(domain.features) for FEATURES=tokens  (= frozenset(optimize_incrementals(..)))
            and optimize_incrementals called directly
  consume   domain.use for USE=tokens -> domain.enabled_use -> render_pkg(pkg, pre_defaults=orig):
            the stored condensed set applied exactly the way its consumer applies it
  license   misc.incremental_expansion_license(pkg, licenses, groups, tokens); the group mapping
            comes from a real Licenses object over generated profiles/license_groups files (nesting
            depth up to 4, written top-down / bottom-up / shuffled, master repos); the model flattens
            the same definitions itself (close_groups); stream 'groups' compares the maps directly
  pull      collapsed_restrict_to_data(...).pull_data vs the expansion of iter_pull_data
  nipull    non_incremental_collapsed_restrict_to_data(...).pull_data
  licfilter domain._pkg_filters() on a stub domain whose package.license is read by the real loader,
            then a SEQUENCE of queries against that ONE long-lived license filter (packages with and
            without matching entries, repeated); every answer must be the reading of
            "ACCEPT_LICENSE, then the entries matching this package" whatever was asked before

State carried across calls: every driver re-uses its object (decoy call first, real call twice) and
checks that its inputs were not mutated; a difference is reported as Err("state-carried...").

Generation: (1) corpus, (2) EXHAUSTIVE short streams over a 7/8-token alphabet containing the
malformed token, (3) random longer streams over 5 flags (two share a USE_EXPAND-like prefix),
(4) a separate malformed stream (one incomplete token spliced into a valid stream).
"""

import itertools
import json
import os

from .common import VERIF, Check, Err, cbool, clist, cpair, cstr

IMPORTS = ("From Coq Require Import List NArith ZArith Bool.\n"
           "From Verif Require Import Base.Val C12.Model_C12 C12.Spec_C12.")
ANCHORS = ["ebuild/misc.py::incremental_expansion", "ebuild/misc.py::optimize_incrementals",
           "ebuild/misc.py::incremental_expansion_license", "ebuild/misc.py::incremental_chunked",
           "ebuild/misc.py::collapsed_restrict_to_data",
           "ebuild/misc.py::non_incremental_collapsed_restrict_to_data",
           "ebuild/misc.py::ChunkedDataDict._add_global", "ebuild/misc.py::ChunkedDataDict.render_pkg",
           "ebuild/domain.py::domain.use", "ebuild/domain.py::domain.features",
           "ebuild/domain.py::domain.enabled_use"]

FLAGS = ["a", "b", "c", "ab_x", "ab_y"]
GROUP_NAMES = ["G", "H", "N"]          # N nests G and a missing group; "M" is never defined


# ----------------------------------------------------------------------------- Coq rendering
def c_strs(xs):
    return clist([cstr(x) for x in xs], "str")


def c_raw_groups(raw):
    return clist([cpair(cstr(k), c_strs(v)) for k, v in raw], "str * list str")


def c_groups(g):
    if isinstance(g, Groups):        # the model flattens the definitions itself
        return "(close_groups %s)" % c_raw_groups(g.raw)
    return clist([cpair(cstr(k), c_strs(sorted(v))) for k, v in sorted(g.items())], "str * list str")


class Groups(dict):
    """license groups of one generated repository.  The dict content is the REFERENCE meaning of
    the definitions (reachability, computed here); .raw is the license_groups file in definition
    order (after merging the master's already flattened groups, as Licenses.groups does); .impl is
    what the real Licenses object built from the files answers (None/Err when it raised)."""
    raw = ()
    impl = None
    lic_obj = None
    files = ()


def ref_closure(raw):
    d = dict(raw)

    def go(g, seen):
        out = set()
        for m in d.get(g, ()):
            if m.startswith("@"):
                h = m[1:]
                if h and h in d and h not in seen:
                    out |= go(h, seen | {h})
            else:
                out.add(m)
        return out
    return {g: frozenset(go(g, {g})) for g, _ in raw}


BUCKETS = {"always": "BAlways true", "never": "BAlways false", "repo": "BRepo", "cat": "BCat",
           "pkg": "BPkg", "multi": "BMulti", "atom": "BAtom true", "otheratom": "BAtom false"}


def c_sources(srcs):
    return clist([cpair(BUCKETS[b], cbool(m), c_strs(d)) for b, m, d in srcs], "source")


def c_licfilter(master, entries, groups, queries):
    ents = clist([c_strs(e[2]) for e in entries], "list str")
    qs = clist([cpair(clist([cbool(entry_matches(e, q)) for e in entries], "bool"),
                      clist([c_strs(a) for a in q[2]], "list str")) for q in queries], "lic_query")
    return cpair(c_strs(master), ents, c_groups(groups), qs)


def entry_matches(entry, query):
    """package.license atom `cat/NAME` or `=cat/NAME-VER` against package cat/NAME-VER (atom
    matching itself is C04's subject; only these two shapes are generated)"""
    name, ver, _ = entry
    return name == query[0] and (ver is None or ver == query[1])


def license_string(alts):
    def one(a):
        return " ".join(a) if len(a) == 1 else "( " + " ".join(a) + " )"
    if len(alts) == 1:
        return " ".join(alts[0])
    return "|| ( " + " ".join(one(a) for a in alts) + " )"


def ref_licfilter(master, entries, groups, queries):
    """stateless reference: each answer from this package's own stream only"""
    if not master and not entries:
        return [True for _ in queries]
    out = []
    for q in queries:
        stream = list(master)
        for e in entries:
            if entry_matches(e, q):
                stream += e[2]
        bad = first_bad(stream, lic=True)
        if bad is not None:
            out.append(bad if q[2] else False)
            continue
        out.append(any(all(lic_member(x, stream, alt, groups) for x in alt) for alt in q[2]))
    return out


# ----------------------------------------------------------------------------- implementation driver
def call(f):
    """Run implementation code; map the exceptions the property talks about to the model's enum."""
    try:
        return f()
    except ValueError as e:
        m = str(e)
        if "license group, '-@'" in m:
            return Err("ValueError:-@")
        if "license group, '@'" in m:
            return Err("ValueError:@")
        if "incomplete negation" in m or "negation without a token" in m:
            return Err("ValueError:-")
        return Err("ValueError:other")
    except IndexError:
        return Err("IndexError")
    except Exception as e:  # noqa: BLE001
        return Err(type(e).__name__)


class _Pkg:
    key = "cat/pkg"


# ----------------------------------------------------------------------------- the Python oracle (B)
def lw_member(x, ts, orig, fin=True):
    """last writer wins for USE/FEATURES-like streams: scan from the last token backwards"""
    for t in reversed(ts):
        if t == x and (not t.startswith("-") or not fin):
            return True
        if t.startswith("-"):
            if t == "-*" or t[1:] == x:
                return False
        elif x == "-" + t:
            return False
    return x in orig


def first_bad(ts, lic=False):
    for t in ts:
        if t == "":
            return Err("IndexError")
        if t == "-":
            return Err("ValueError:-")
        if lic and t == "-@":
            return Err("ValueError:-@")
        if lic and t == "@":
            return Err("ValueError:@")
    return None


def ref_expand(ts, orig, fin=True):
    bad = first_bad(ts)
    if bad is not None:
        return bad
    return sorted(x for x in set(orig) | set(ts) if lw_member(x, ts, orig, fin))


def lic_member(x, ts, lics, groups):
    for t in reversed(ts):
        if t.startswith("-"):
            i = t[1:]
            if i == "*" or (i.startswith("@") and x in groups.get(i[1:], ())) or i == x:
                return False
        elif t.startswith("@"):
            if x in groups.get(t[1:], ()):
                return True
        elif t == "*":
            if x in lics:
                return True
        elif t == x:
            return True
    return False


def ref_license(ts, lics, groups):
    bad = first_bad(ts, lic=True)
    if bad is not None:
        return bad
    univ = set(lics) | set(ts) | {m for v in groups.values() for m in v}
    return sorted(x for x in univ if lic_member(x, ts, lics, groups))


def is_glob_neg(t):
    return t.startswith("-") and t.endswith("_*")


def positives(xs):
    return sorted(x for x in xs if not x.startswith("-"))


def dash_hidden_by_clear(ts):
    """the class of streams on which the pinned optimize_incrementals does not reject a bare '-':
    every bare '-' lies left of the last '-*' (the right-to-left scan returns at that '-*')"""
    if "-" not in ts or "-*" not in ts:
        return False
    last_clear = len(ts) - 1 - ts[::-1].index("-*")
    return all(i < last_clear for i, t in enumerate(ts) if t in ("-", ""))


def unfinalized_order_class(fd, always, pre):
    """collapsed_restrict_to_data(finalize_defaults=False).pull_data(pre_defaults=non-empty): the
    unfinalized defaults SET is re-expanded in set-iteration order, so a '-*' kept in it may be
    applied after the positives that followed it in the stream"""
    if fd or not pre or "-*" not in always:
        return False
    last_clear = len(always) - 1 - always[::-1].index("-*")
    return any(not t.startswith("-") for t in always[last_clear + 1:])


def entry_repeats_token(toks):
    """a package.license / package.accept_keywords / package.use line in which some token occurs
    twice: domain.py applies stable_unique to the line, dropping the later occurrence"""
    return len(set(toks)) < len(toks)


def nontrivial(ts):
    seen_pos = set()
    for i, t in enumerate(ts):
        if t == "-*" and i > 0:
            return True
        if t.startswith("-") and t[1:] in seen_pos:
            return True
        if t.startswith("-@") and seen_pos:
            return True
        if not t.startswith("-"):
            seen_pos.add(t)
    return False


# ----------------------------------------------------------------------------- generators
def gen_use_stream(rng, maxlen=12):
    n = rng.choice([0, 1, 2, 3, 4, 5, 6, 8, maxlen])
    out = []
    for _ in range(n):
        r = rng.random()
        f = rng.choice(FLAGS)
        if r < 0.42:
            out.append(f)
        elif r < 0.78:
            out.append("-" + f)
        elif r < 0.88:
            out.append("-*")
        elif r < 0.91:
            out.append("*")
        elif r < 0.94:
            out.append("-ab_*")
        elif r < 0.96:
            out.append("--" + f)
        elif r < 0.98:
            out.append("@G")
        else:
            out.append("ab_*")
    return out


def gen_license_stream(rng, lics_all, maxlen=10):
    n = rng.choice([0, 1, 2, 3, 4, 5, 6, maxlen])
    out = []
    for _ in range(n):
        r = rng.random()
        l = rng.choice(lics_all)
        g = rng.choice(GROUP_NAMES + ["M"])
        if r < 0.30:
            out.append(l)
        elif r < 0.50:
            out.append("-" + l)
        elif r < 0.68:
            out.append("@" + g)
        elif r < 0.82:
            out.append("-@" + g)
        elif r < 0.90:
            out.append("*")
        else:
            out.append("-*")
    return out


GROUP_POOL = ["G", "H", "N", "K", "TOP"]


def flattening_diverges(raw, cap=4000):
    """Licenses._expand_groups never terminates (lists double every pass) on some cyclic files, e.g.
    'H @G x' / 'G y @G @H' (a self reference inside a reference cycle).  Simulate the passes with a
    size cap so that such a file is never handed to the real code inside the check."""
    groups = {k: list(dict.fromkeys(v)) for k, v in raw}
    for _ in range(64):
        again = False
        for k, v in groups.items():
            if not any(x.startswith("@") for x in v):
                continue
            again = True
            l = []
            for m in v:
                if m.startswith("@"):
                    h = m[1:]
                    if h and h in groups and h != k:
                        l.extend(groups[h])
                else:
                    l.append(m)
            if len(l) > cap:
                return True
            groups[k] = l
        if not again:
            return False
    return True


DIVERGING_WITNESS = [("H", ["@G", "BSD"]), ("G", ["MIT", "@G", "@H"])]


def gen_group_defs(rng, lics_all):
    """nested definitions: a reference chain of depth 1..4 (TOP -> K -> N -> H -> G style) plus side
    references, a missing group, sometimes a self reference or a 2-cycle; written in a random
    definition ORDER (top-down, bottom-up or shuffled)"""
    depth = rng.choice([1, 2, 2, 3, 3, 4])
    names = GROUP_POOL[:depth + 1]                      # names[0] innermost
    defs = {}
    for i, n in enumerate(names):
        mem = rng.sample(lics_all, rng.choice([0, 1, 1, 2]))
        if i > 0 and (i == len(names) - 1 or rng.random() < 0.85):
            mem.append("@" + names[i - 1])
        if i > 1 and rng.random() < 0.25:
            mem.append("@" + names[rng.randrange(i - 1)])     # side reference further down
        if rng.random() < 0.15:
            mem.append("@M")                                  # missing group
        if rng.random() < 0.06:
            mem.append("@" + n)                               # self reference
        if not mem:
            mem.append(rng.choice(lics_all))                  # an empty line breaks read_dict
        rng.shuffle(mem)
        defs[n] = mem
    if len(names) >= 2 and rng.random() < 0.06:
        defs[names[0]].append("@" + names[1])                # 2-cycle
    order = rng.choice(["top-down", "bottom-up", "shuffled"])
    keys = list(names)
    if order == "top-down":
        keys.reverse()
    elif order == "shuffled":
        rng.shuffle(keys)
    raw = [(k, defs[k]) for k in keys]
    if flattening_diverges(raw):            # recorded finding cyclic-groups-diverge; not fed to the code
        return gen_group_defs(rng, lics_all)
    return raw


def gen_groups(rng, lics_all, make_licenses):
    """definitions -> files -> the real Licenses object (sometimes with a master repository whose
    groups arrive already flattened)"""
    raw = gen_group_defs(rng, lics_all)
    master_raw = []
    if rng.random() < 0.25:
        master_raw = [("MG", rng.sample(lics_all, rng.choice([1, 2])) + (["@MI"] if rng.random() < 0.5 else [])),
                      ("MI", rng.sample(lics_all, 1))]
        if rng.random() < 0.5:
            master_raw.reverse()
        k = rng.randrange(len(raw))
        raw[k] = (raw[k][0], raw[k][1] + ["@MG"])
    return build_groups(raw, master_raw, make_licenses)


def build_groups(raw, master_raw, make_licenses):
    g = Groups()
    merged = list(raw)
    if master_raw:
        mclosed = ref_closure(master_raw)
        names = [k for k, _ in raw]
        for k, _ in master_raw:                              # d[k] |= v  /  d[k] = v
            if k in names:
                i = names.index(k)
                merged[i] = (k, merged[i][1] + sorted(mclosed[k]))
            else:
                merged.append((k, sorted(mclosed[k])))
    g.raw = merged
    g.files = (raw, master_raw)
    g.update(ref_closure(merged))
    g.lic_obj, g.impl = make_licenses(raw, master_raw)
    return g


PKG_NAMES = ["p0", "p1", "p2", "p3"]


def gen_licfilter(rng, lics_all, make_licenses, malformed=False):
    groups = gen_groups(rng, lics_all, make_licenses)
    master = gen_license_stream(rng, lics_all, 4)[:4]
    if rng.random() < 0.5 and "-*" not in master:
        master = ["-*"] + master            # the usual ACCEPT_LICENSE="-* @FREE" shape
    entries = []
    for _ in range(rng.choice([0, 1, 2, 2, 3])):
        toks = []
        for t in gen_license_stream(rng, lics_all, 3)[:3] or ["@H"]:
            if t not in toks:               # the loader de-duplicates a line (separate finding)
                toks.append(t)
        entries.append((rng.choice(PKG_NAMES[:3]), rng.choice([None, None, "2"]), toks))
    if malformed:
        bad = rng.choice(["-", "-@", "@"])
        if entries and rng.random() < 0.6:
            e = rng.choice(range(len(entries)))
            if bad not in entries[e][2]:
                entries[e] = (entries[e][0], entries[e][1], splice(rng, entries[e][2], bad))
        else:
            master = splice(rng, master, bad)
    queries = []
    with_entry = [e[0] for e in entries] or PKG_NAMES
    for _ in range(rng.choice([2, 3, 4, 5, 6])):
        name = rng.choice(with_entry) if rng.random() < 0.55 else rng.choice(PKG_NAMES)
        r = rng.random()
        if r < 0.08:
            alts = [[]]                      # LICENSE=""
        elif r < 0.55:
            alts = [rng.sample(lics_all, rng.choice([1, 1, 2]))]
        else:
            alts = [rng.sample(lics_all, rng.choice([1, 1, 2])) for _ in range(rng.choice([2, 3]))]
        queries.append((name, rng.choice(["1", "2"]), alts))
    if queries and rng.random() < 0.5:
        queries.append(queries[0])           # the same package again, after the others
    return master, entries, groups, queries


def splice(rng, ts, bad):
    ts = list(ts)
    ts.insert(rng.randrange(len(ts) + 1), bad)
    return ts


# ----------------------------------------------------------------------------- main
def main(chk: Check):
    import logging
    logging.getLogger("pkgcore").setLevel(logging.CRITICAL)
    os.environ.pop("USE", None)
    os.environ.pop("FEATURES", None)
    from pkgcore.ebuild import atom as atom_mod
    from pkgcore.ebuild import domain as dom
    from pkgcore.ebuild import misc
    from pkgcore.ebuild.repo_objs import Licenses
    from pkgcore.restrictions import boolean, packages, values
    from pkgcore.test.misc import FakePkg, FakeRepo

    rng = chk.rng
    chk.rule("exhaustive: every stream of length <= L over {a,-a,b,-b,-*,*,-} (licenses: "
             "{a,-a,b,@G,-@G,*,-*,@}); L=3 quick, 5 thorough (4 for licenses and expand/consume x origs); "
             "random: streams up to length 12 over 5 flags (two sharing a prefix) with negations, -*, *, "
             "--x, -ab_*, @G; licenses with groups nested up to depth 4, defined top-down/bottom-up/shuffled, missing/self/cyclic refs, master repos, read by the real Licenses object; "
             "malformed: one of '', '-', '-@', '@' spliced into a valid stream. non-trivial = the stream "
             "has a negation after a positive of the same flag or a -* not in first position")
    ok = chk.build(["C12/Prop_C12.vo"])
    if ok:
        chk.check_assumptions("C12/Prop_C12.v")
    chk.lint(["C12"])
    chk.check_fingerprint(ANCHORS)

    # ---------------- implementation drivers
    def impl_expand(fin, orig, ts):
        def f():
            toks = list(ts)
            a = sorted(misc.incremental_expansion(toks, set(orig), finalize=fin))
            b = sorted(misc.incremental_expansion(toks, set(orig), finalize=fin))
            if toks != list(ts) or a != b:
                return Err("state-carried:expand")
            return a
        return call(f)

    class _Profile:
        pkg_use = misc.ChunkedDataDict()
        stable_use = misc.ChunkedDataDict()

        def expand_use(self, settings):
            return ()

    def fake_domain(**settings):
        class _D:
            pass
        d = _D()
        d.settings = settings
        d.profile = _Profile()
        d.features = frozenset()
        d.pkg_use = ()
        return d

    def impl_optimize(ts):
        toks = list(ts)
        direct = call(lambda: sorted(frozenset(misc.optimize_incrementals(toks))))
        again = call(lambda: sorted(frozenset(misc.optimize_incrementals(toks))))
        via = call(lambda: sorted(dom.domain.features.function(fake_domain(FEATURES=tuple(ts)))))
        if direct != via:
            return Err("features-differs-from-optimize")
        if direct != again or toks != list(ts):
            return Err("state-carried:optimize")
        return direct

    def impl_consume(ts, orig):
        def f():
            d = fake_domain(USE=tuple(ts))
            d.use = dom.domain.use.function(d)
            cdd = dom.domain.enabled_use.function(d)
            cdd.render_pkg(_Pkg, pre_defaults=("zz", "a", "c"))      # decoy query on the same object
            a = sorted(cdd.render_pkg(_Pkg, pre_defaults=tuple(orig)))
            b = sorted(cdd.render_pkg(_Pkg, pre_defaults=tuple(orig)))
            if a != b:
                return Err("state-carried:render_pkg")
            return a
        return call(f)

    def impl_license(lics, groups, ts):
        def f():
            src = groups.lic_obj.groups if isinstance(groups, Groups) else groups
            toks, g = list(ts), dict(src)
            a = sorted(misc.incremental_expansion_license("cat/pkg-1", frozenset(lics), g, toks, msg_prefix="x "))
            b = sorted(misc.incremental_expansion_license("cat/pkg-1", frozenset(lics), g, toks, msg_prefix="x "))
            if a != b or toks != list(ts) or g != dict(src):
                return Err("state-carried:license")
            return a
        return call(f)

    # the license filter of a stub domain: real package.license loader, real _pkg_filters binding,
    # one filter object for the whole sequence of queries
    import shutil
    import tempfile

    class _LicMgr:
        def __init__(self, groups):
            self.groups = groups

    class _KwProfile:
        accept_keywords = ()
        keywords = ()

    class _LicDomain:
        _pkg_filters = dom.domain._pkg_filters
        _make_keywords_filter = dom.domain._make_keywords_filter
        _apply_keywords_filter = dom.domain._apply_keywords_filter
        _apply_license_filter = dom.domain._apply_license_filter
        _default_licenses_manager = None
        arch, stable_arch, unstable_arch = "x86", "x86", "~x86"
        pkg_accept_keywords = ()
        pkg_keywords = ()
        profile = _KwProfile()
        root = "/"

    lic_tmp = tempfile.mkdtemp(prefix="verif_C12_lic_")

    class _RepoLoc:
        def __init__(self, location):
            self.location = location

    def _lic_repo(defs):
        loc = tempfile.mkdtemp(dir=lic_tmp)
        os.makedirs(os.path.join(loc, "profiles"))
        with open(os.path.join(loc, "profiles", "license_groups"), "w") as fh:
            fh.write("# generated\n")
            for k, mem in defs:
                fh.write(k + " " + " ".join(mem) + "\n")
        return _RepoLoc(loc)

    all_groups = []

    def make_licenses(raw, master_raw):
        """the real Licenses object over real files; its .groups is what the filter consumes"""
        def f():
            masters = [Licenses(_lic_repo(master_raw))] if master_raw else []
            obj = Licenses(_lic_repo(raw), *masters)
            return obj, {k: frozenset(v) for k, v in obj.groups.items()}
        r = call(f)
        return (None, r) if isinstance(r, Err) else r

    def impl_licfilter(master, entries, groups, queries):
        def f():
            d = _LicDomain()
            d.config_dir = tempfile.mkdtemp(dir=lic_tmp)
            with open(os.path.join(d.config_dir, "package.license"), "w") as fh:
                for name, ver, toks in entries:
                    atom_s = f"cat/{name}" if ver is None else f"=cat/{name}-{ver}"
                    fh.write(atom_s + " " + " ".join(toks) + "\n")
            d.settings = {"ACCEPT_KEYWORDS": ("x86",), "ACCEPT_LICENSE": tuple(master)}
            d.pkg_licenses = dom.domain.pkg_licenses.function(d)
            if [list(x[1]) for x in d.pkg_licenses] != [list(e[2]) for e in entries]:
                return Err("package.license-not-read-back")
            filters = d._pkg_filters()
            repo = FakeRepo(repo_id="r", licenses=groups.lic_obj if isinstance(groups, Groups)
                            else _LicMgr(groups))
            if len(filters) == 1:            # no license filter installed: everything passes
                return [True for _ in queries]
            out = []
            for name, ver, alts in queries:
                p = FakePkg(f"cat/{name}-{ver}", data={"LICENSE": license_string(alts)}, repo=repo)
                out.append(call(lambda: bool(filters[-1].match(p))))
            if tuple(d.settings["ACCEPT_LICENSE"]) != tuple(master):
                return Err("state-carried:ACCEPT_LICENSE")
            return out
        return call(f)

    pkg = FakePkg("cat/pkg-1", repo=FakeRepo(repo_id="r"))
    pkg2 = FakePkg("dog/gkp-1", repo=FakeRepo(repo_id="q"))     # matched by the m=False restrictions

    def restriction(bucket, m):
        if bucket == "always":
            return packages.AlwaysTrue
        if bucket == "never":
            return packages.AlwaysFalse
        if bucket == "repo":
            return packages.PackageRestriction("repo.repo_id", values.StrExactMatch("r" if m else "q"))
        if bucket == "cat":
            return packages.PackageRestriction("category", values.StrExactMatch("cat" if m else "dog"))
        if bucket == "pkg":
            return packages.PackageRestriction("package", values.StrExactMatch("pkg" if m else "gkp"))
        if bucket == "multi":
            return boolean.AndRestriction(
                packages.PackageRestriction("category", values.StrExactMatch("cat")),
                packages.PackageRestriction("package", values.StrExactMatch("pkg" if m else "gkp")))
        if bucket == "atom":
            return atom_mod.atom("cat/pkg" if m else "=cat/pkg-2")
        return atom_mod.atom("cat/other")

    def impl_pull(fd, srcs, pre, with_stream=False):
        def f():
            obj = misc.collapsed_restrict_to_data(
                [(restriction(b, m), tuple(d)) for b, m, d in srcs], finalize_defaults=fd)
            for decoy_pkg, decoy_pre in ((pkg2, ()), (pkg2, ("zz", "b") if fd else ()),
                                         (pkg, ("zz", "b") if fd else ())):
                try:                     # decoy queries first: another package (the entries that do
                    obj.pull_data(decoy_pkg, pre_defaults=decoy_pre)   # NOT match pkg match it), other pre
                except ValueError:
                    pass
            res = sorted(obj.pull_data(pkg, pre_defaults=tuple(pre)))
            if res != sorted(obj.pull_data(pkg, pre_defaults=tuple(pre))):
                return Err("state-carried:pull_data")
            if with_stream:
                return res, list(obj.iter_pull_data(pkg, pre_defaults=tuple(pre)))
            return res
        return call(f)

    def impl_nipull(srcs):
        def f():
            obj = misc.non_incremental_collapsed_restrict_to_data(
                [(restriction(b, m), tuple(d)) for b, m, d in srcs])
            obj.pull_data(pkg2)              # decoy query with another package first
            a = sorted(obj.pull_data(pkg))
            b = sorted(set(obj.iter_pull_data(pkg)))
            if a != b:
                return Err("pull-differs-from-iter")
            return a
        return call(f)

    # ---------------- case lists: (python input, coq term, impl result)
    expand_in, optimize_in, consume_in, license_in, pull_in, nipull_in = [], [], [], [], [], []
    licfilter_in = []
    extra_groups = []

    # (1) corpus
    cdir = VERIF / "corpus" / "C12"
    if cdir.is_dir():
        for p in sorted(cdir.glob("*.json")):
            for c in json.loads(p.read_text()):
                if c["stream"] == "expand":
                    expand_in.append((c["fin"], c["orig"], c["ts"]))
                elif c["stream"] == "optimize":
                    optimize_in.append(c["ts"])
                elif c["stream"] == "consume":
                    consume_in.append((c["ts"], c["orig"]))
                elif c["stream"] == "license":
                    license_in.append((c["lics"], {k: frozenset(v) for k, v in c["groups"].items()}, c["ts"]))
                elif c["stream"] == "groups":
                    g = build_groups([(k, list(v)) for k, v in c["raw"]],
                                     [(k, list(v)) for k, v in c.get("master", [])], make_licenses)
                    for ts in c.get("license_streams", []):
                        license_in.append((c["lics"], g, ts))
                    for lf in c.get("licfilters", []):
                        licfilter_in.append((lf["master"], [(e[0], e[1], e[2]) for e in lf["entries"]], g,
                                             [(q[0], q[1], q[2]) for q in lf["queries"]]))
                    extra_groups.append(g)
                elif c["stream"] == "licfilter":
                    licfilter_in.append((c["master"], [(e[0], e[1], e[2]) for e in c["entries"]],
                                         {k: frozenset(v) for k, v in c["groups"].items()},
                                         [(q[0], q[1], q[2]) for q in c["queries"]]))

    # (2) exhaustive short streams
    L = chk.n(3, 5)
    L2 = chk.n(3, 4)
    alpha = ["a", "-a", "b", "-b", "-*", "*", "-"]
    e_variants = chk.n(0, 1) and [(True, []), (True, ["a"]), (True, ["a", "b"]), (True, ["-a", "b"]),
                                  (False, []), (False, ["a"]), (False, ["-a", "b"])] \
        or [(True, ["-a", "b"]), (False, ["a"])]
    c_variants = chk.n(0, 1) and [[], ["a"], ["a", "b"]] or [[], ["a", "b"]]
    for n in range(L + 1):
        for ts in itertools.product(alpha, repeat=n):
            ts = list(ts)
            optimize_in.append(ts)
            if n <= L2:
                for fin, orig in e_variants:
                    expand_in.append((fin, orig, ts))
                for orig in c_variants:
                    consume_in.append((ts, orig))
    lalpha = ["a", "-a", "b", "@G", "-@G", "*", "-*", "@"]
    ex_groups = {"G": frozenset(["a", "c"])}
    for n in range(L2 + 1):
        for ts in itertools.product(lalpha, repeat=n):
            license_in.append((["a", "b"], ex_groups, list(ts)))

    # (3) random structured streams
    for _ in range(chk.n(250, 12000)):
        ts = gen_use_stream(rng)
        orig = rng.sample(FLAGS + ["z", "-a", "-b"], rng.choice([0, 0, 1, 2, 3]))
        expand_in.append((rng.random() < 0.7, orig, ts))
        optimize_in.append(ts)
        consume_in.append((ts, [o for o in orig if rng.random() < 0.9 or not o.startswith("-")]))
    lics_all = ["GPL-2", "MIT", "BSD", "l4", "l5"]
    for _ in range(chk.n(300, 8000)):
        groups = gen_groups(rng, lics_all, make_licenses)
        lics = rng.sample(lics_all, rng.choice([1, 2, 3]))
        license_in.append((lics, groups, gen_license_stream(rng, lics_all)))

    # (4) malformed
    for _ in range(chk.n(100, 2000)):
        ts = splice(rng, gen_use_stream(rng, 8), rng.choice(["-", "-", "-", ""]))
        if rng.random() < 0.2:
            ts = splice(rng, ts, rng.choice(["-", ""]))
        expand_in.append((rng.random() < 0.7, rng.sample(FLAGS, rng.choice([0, 1, 2])), ts))
        optimize_in.append(ts)
        consume_in.append((ts, rng.sample(FLAGS, rng.choice([0, 1, 2]))))
        groups = gen_groups(rng, lics_all, make_licenses)
        lt = splice(rng, gen_license_stream(rng, lics_all, 8), rng.choice(["-", "-@", "@", ""]))
        if rng.random() < 0.3:
            lt = splice(rng, lt, rng.choice(["-", "-@", "@"]))
        license_in.append((rng.sample(lics_all, 2), groups, lt))

    # (4b) sequences of queries against one license filter
    eg = make_licenses
    for _ in range(chk.n(160, 4000)):
        licfilter_in.append(gen_licfilter(rng, lics_all, eg))
    for _ in range(chk.n(25, 500)):
        licfilter_in.append(gen_licfilter(rng, lics_all, eg, malformed=True))

    # (5) pull_data
    bnames = ["always", "always", "never", "repo", "cat", "pkg", "multi", "atom", "atom", "otheratom"]
    for _ in range(chk.n(200, 6000)):
        srcs = []
        for _ in range(rng.choice([1, 2, 3, 4, 5, 6])):
            b = rng.choice(bnames)
            m = True if b == "always" else False if b in ("never", "otheratom") else rng.random() < 0.7
            d = gen_use_stream(rng, 4)[:4]
            if rng.random() < 0.04:
                d = splice(rng, d, "-")
            srcs.append((b, m, d))
        fd = rng.random() < 0.8
        pre = rng.sample(FLAGS + ["z"], rng.choice([0, 0, 1, 2])) if fd else []
        pull_in.append((fd, srcs, pre))
        nipull_in.append(srcs)

    # ---------------- run the implementation, apply the Python oracle (B)
    prop_fail = []      # concrete property failures: (class_id or None, detail)

    def fail(cls, what, inp, got, want):
        prop_fail.append((cls, {"what": what, "input": inp, "implementation": got, "left_to_right": want}))

    expand_cases = []
    for fin, orig, ts in expand_in:
        res = impl_expand(fin, orig, ts)
        expand_cases.append((cpair(cbool(fin), c_strs(orig), c_strs(ts)), res))
        want = ref_expand(ts, orig, fin)
        if res != want:
            fail(None, "incremental_expansion differs from left-to-right / last-writer-wins",
                 {"finalize": fin, "orig": orig, "tokens": ts}, res, want)
        if nontrivial(ts):
            chk.nontrivial(("e", fin, tuple(orig), tuple(ts)))
    chk.count("expand", len(expand_cases))

    optimize_cases = []
    for ts in optimize_in:
        res = impl_optimize(ts)
        optimize_cases.append((c_strs(ts), res))
        bad = first_bad(ts)
        if "-" in ts and not isinstance(res, Err):     # "" cannot come out of str.split(): no claim
            fail("optimize-accepts-dash-left-of-clear" if dash_hidden_by_clear(ts) else None,
                 "optimize_incrementals accepts a stream with an incomplete token",
                 {"tokens": ts}, res, bad)
        if bad is None and isinstance(res, Err):
            fail(None, "optimize_incrementals rejects a well-formed stream", {"tokens": ts}, res, "a set")
        if nontrivial(ts):
            chk.nontrivial(("o", tuple(ts)))
    chk.count("optimize", len(optimize_cases))

    consume_cases = []
    for ts, orig in consume_in:
        res = impl_consume(ts, orig)
        consume_cases.append((cpair(c_strs(ts), c_strs(orig)), res))
        want = ref_expand(ts, orig, True)
        if isinstance(want, Err):
            if "-" in ts and not isinstance(res, Err):
                fail("optimize-accepts-dash-left-of-clear" if dash_hidden_by_clear(ts) else None,
                     "domain.use accepts a USE stream with an incomplete token",
                     {"tokens": ts, "orig": orig}, res, want)
        elif any(is_glob_neg(t) for t in ts):
            pass        # -prefix_* is C11's wildcard rule, outside C12's token language
        elif isinstance(res, Err) or positives(res) != positives(want):
            fail(None, "the stored condensed USE set, applied by enabled_use, differs from the left-to-right "
                       "expansion of the stream", {"tokens": ts, "orig": orig}, res, want)
        if nontrivial(ts):
            chk.nontrivial(("c", tuple(orig), tuple(ts)))
    chk.count("consume", len(consume_cases))

    license_cases = []
    for lics, groups, ts in license_in:
        res = impl_license(lics, groups, ts)
        license_cases.append((cpair(c_strs(lics), c_groups(groups), c_strs(ts)), res))
        want = ref_license(ts, lics, groups)
        if res != want:
            fail(None, "incremental_expansion_license differs from left-to-right / last-writer-wins",
                 {"licenses": lics, "groups": {k: sorted(v) for k, v in groups.items()}, "tokens": ts,
                  "license_groups": [k + " " + " ".join(m) for k, m in getattr(groups, "files", ((), ()))[0]],
                  "master license_groups": [k + " " + " ".join(m) for k, m in getattr(groups, "files", ((), ()))[1]]},
                 res, want)
        if nontrivial(ts):
            chk.nontrivial(("l", tuple(lics), tuple(sorted((k, tuple(sorted(v))) for k, v in groups.items())),
                            tuple(ts)))
    chk.count("license", len(license_cases))

    licfilter_cases = []
    for master, entries, groups, queries in licfilter_in:
        res = impl_licfilter(master, entries, groups, queries)
        licfilter_cases.append((c_licfilter(master, entries, groups, queries), res))
        want = ref_licfilter(master, entries, groups, queries)
        if res != want:
            k = len(queries)
            if isinstance(res, list) and len(res) == len(want):
                k = 1 + next(i for i in range(len(want)) if res[i] != want[i])
            fail(None, "the license filter's answer is not the left-to-right reading of ACCEPT_LICENSE "
                       "followed by the package.license entries matching that package (sequence of "
                       "queries against one filter, in call order; the last one shown differs)",
                 {"ACCEPT_LICENSE": master,
                  "package.license": [(f"cat/{n}" if v is None else f"=cat/{n}-{v}") + " " + " ".join(t)
                                      for n, v, t in entries],
                  "groups": {g: sorted(v) for g, v in groups.items()},
                  "license_groups": [g + " " + " ".join(m) for g, m in getattr(groups, "files", ((), ()))[0]],
                  "queries": [{"pkg": f"cat/{n}-{v}", "LICENSE": license_string(a)} for n, v, a in queries[:k]]},
                 res if not isinstance(res, list) else res[:k], want[:k])
        hits = [sum(1 for e in entries if entry_matches(e, q)) for q in queries]
        if any(h for h in hits[:-1]) and len(queries) >= 2:
            chk.nontrivial(("f", repr((master, entries, queries))))
    chk.count("licfilter", len(licfilter_cases))

    # a package.license line that repeats a token: the loader applies stable_unique to the line,
    # so "x -x x" is read as "x -x" (reference comparison only; recorded finding)
    n_dup = 0
    for _ in range(chk.n(20, 300)):
        l = rng.choice(lics_all)
        toks = rng.choice([[l, "-" + l, l], ["-" + l, l, "-" + l], ["@G", "-*", "@G"], [l, "-*", l]])
        master = rng.choice([["-*"], ["-*", "@H"], [l]])
        groups = {"G": frozenset([l]), "H": frozenset(rng.sample(lics_all, 2))}
        entries = [("p0", None, toks)]
        queries = [("p0", "1", [[l]]), ("p1", "1", [[l]])]
        want = ref_licfilter(master, entries, groups, queries)
        d = _LicDomain()
        d.config_dir = tempfile.mkdtemp(dir=lic_tmp)
        with open(os.path.join(d.config_dir, "package.license"), "w") as fh:
            fh.write("cat/p0 " + " ".join(toks) + "\n")
        d.settings = {"ACCEPT_KEYWORDS": ("x86",), "ACCEPT_LICENSE": tuple(master)}

        def run_dup():
            d.pkg_licenses = dom.domain.pkg_licenses.function(d)
            flt = d._pkg_filters()[-1]
            repo = FakeRepo(repo_id="r", licenses=_LicMgr(groups))
            return [bool(flt.match(FakePkg(f"cat/{n}-{v}", data={"LICENSE": license_string(a)}, repo=repo)))
                    for n, v, a in queries]
        res = call(run_dup)
        n_dup += 1
        if res != want:
            fail("config-line-repeated-token" if entry_repeats_token(toks) else None,
                 "a package.license line with a repeated token is not read left to right",
                 {"ACCEPT_LICENSE": master, "package.license": ["cat/p0 " + " ".join(toks)],
                  "groups": {g: sorted(v) for g, v in groups.items()},
                  "queries": [{"pkg": f"cat/{n}-{v}", "LICENSE": license_string(a)} for n, v, a in queries]},
                 res, want)
    chk.count("licfilter_dup", n_dup)
    shutil.rmtree(lic_tmp, ignore_errors=True)

    # the group maps themselves: real Licenses(...).groups vs the order-independent meaning
    groups_in, seen_g = [], set()
    for g in extra_groups + [x[1] for x in license_in] + [x[2] for x in licfilter_in]:
        if isinstance(g, Groups) and id(g) not in seen_g:
            seen_g.add(id(g))
            groups_in.append(g)
    groups_cases = []
    for g in groups_in:
        if isinstance(g.impl, Err):
            res = g.impl
        else:
            res = [[k, sorted(g.impl[k])] if k in g.impl else Err("group-missing") for k, _ in g.raw]
            if set(g.impl) != {k for k, _ in g.raw}:
                res = Err("group-names-differ")
        groups_cases.append(("(%s)" % c_raw_groups(g.raw), res))
        want = [[k, sorted(g[k])] for k, _ in g.raw]
        if res != want:
            bad = [k for k, _ in g.raw if isinstance(res, Err) or [k, sorted(g[k])] not in res]
            fail(None, "Licenses.groups does not flatten the nested @group definitions to the licenses "
                       "reachable through the references (so @group / -@group tokens expand wrongly)",
                 {"license_groups": [k + " " + " ".join(m) for k, m in g.files[0]],
                  "master license_groups": [k + " " + " ".join(m) for k, m in g.files[1]],
                  "wrong_groups": bad},
                 res if isinstance(res, Err) else {k: v for k, v in res if k in bad},
                 {k: sorted(g[k]) for k in bad})
        depth_refs = sum(1 for _, m in g.raw for x in m if x.startswith("@"))
        if depth_refs >= 2:
            chk.nontrivial(("g", repr(g.files)))
    chk.count("groups", len(groups_cases))

    # the diverging cyclic file, in a subprocess with an address-space limit and a timeout
    import subprocess
    import sys
    probe = ("import resource,logging;resource.setrlimit(resource.RLIMIT_AS,(1<<30,1<<30));"
             "logging.getLogger('pkgcore').setLevel(50);"
             "from pkgcore.ebuild.repo_objs import Licenses;"
             "d=%r;Licenses._expand_groups(None,d);print(sorted((k,sorted(set(v))) for k,v in d.items()))"
             % {k: set(v) for k, v in DIVERGING_WITNESS})
    try:
        pr = subprocess.run([sys.executable, "-c", probe], capture_output=True, text=True, timeout=3)
        diverged = pr.returncode != 0
    except subprocess.TimeoutExpired:
        diverged = True
    chk.count("groups_cyclic_probe", 1)
    if diverged:
        if not chk.known_finding("cyclic-groups-diverge",
                                 {"license_groups": [k + " " + " ".join(m) for k, m in DIVERGING_WITNESS]}):
            chk.violation("property", {"what": "Licenses._expand_groups does not terminate / exhausts memory",
                                       "input": {"license_groups": [k + " " + " ".join(m) for k, m in DIVERGING_WITNESS]}})

    pull_cases, nipull_cases = [], []
    for fd, srcs, pre in pull_in:
        r = impl_pull(fd, srcs, pre, with_stream=True)
        res = r if isinstance(r, Err) else r[0]
        pull_cases.append((cpair(cbool(fd), c_sources(srcs), c_strs(pre)), res))
        if not isinstance(r, Err) and fd:
            want = ref_expand(r[1], [], True)
            if res != want:
                fail(None, "pull_data differs from the left-to-right expansion of iter_pull_data",
                     {"finalize_defaults": fd, "sources": srcs, "pre_defaults": pre}, res, want)
        if any(nontrivial(d) for _, _, d in srcs) or len([1 for b, m, _ in srcs if m]) >= 2:
            chk.nontrivial(("p", fd, repr(srcs), tuple(pre)))
    for srcs in nipull_in:
        nipull_cases.append((c_sources(srcs), impl_nipull(srcs)))
    chk.count("pull", len(pull_cases))
    chk.count("nipull", len(nipull_cases))

    # unfinalized defaults re-applied over pre_defaults: hash-order dependent on the pinned tree,
    # so it is compared with the left-to-right reference only (no model of set iteration order)
    n_unf = 0
    for _ in range(chk.n(150, 3000)):
        always = [t for t in gen_use_stream(rng, 6) if not is_glob_neg(t) and not t.startswith("--")]
        spec = [t for t in gen_use_stream(rng, 3)[:3] if not is_glob_neg(t) and not t.startswith("--")]
        pre = rng.sample(FLAGS + ["z"], rng.choice([1, 2]))
        srcs = [("always", True, always)] + ([("cat", True, spec)] if spec else [])
        res = impl_pull(False, srcs, pre)
        want = ref_expand(always + spec, pre, True)
        n_unf += 1
        if res != want:
            fail("unfinalized-defaults-set-order" if unfinalized_order_class(False, always, pre) else None,
                 "pull_data with finalize_defaults=False and pre_defaults differs from the left-to-right "
                 "expansion of the defaults over pre_defaults",
                 {"finalize_defaults": False, "always": always, "specific": spec, "pre_defaults": pre},
                 res, want)
    chk.count("pull_unfinalized", n_unf)

    for name, cs in (("expand", expand_cases), ("consume", consume_cases), ("license", license_cases),
                     ("licfilter", licfilter_cases)):
        step = max(1, len(cs) // 2)
        for inp, res in cs[step - 1::step][:2]:
            chk.sample({"stream": name, "input": inp, "impl": res})

    # ---------------- evaluate model (A) and spec (B) inside Coq: all streams in one case type
    ctor = {"expand": "CExpand", "optimize": "COptimize", "consume": "CConsume",
            "license": "CLicense", "pull": "CPull", "nipull": "CNiPull", "licfilter": "CLicFilter", "groups": "CGroups"}
    raw_in = {"expand": expand_in, "optimize": optimize_in, "consume": consume_in,
              "license": license_in, "pull": pull_in, "nipull": nipull_in, "licfilter": licfilter_in, "groups": [g.files for g in groups_in]}
    per_stream = {"expand": expand_cases, "optimize": optimize_cases, "consume": consume_cases,
                  "license": license_cases, "pull": pull_cases, "nipull": nipull_cases,
                  "licfilter": licfilter_cases, "groups": groups_cases}
    allc = []           # (stream, index in stream)
    for name, cs in per_stream.items():
        allc += [(name, i) for i in range(len(cs))]
    rng.shuffle(allc)   # even out the shards
    cases = [("(%s %s)" % (ctor[n], per_stream[n][i][0]), per_stream[n][i][1]) for n, i in allc]
    corr_bad, spec_bad = [], []
    if ok:
        shard = int(os.environ.get("C12_SHARD", str(chk.n(1600, 2500))))
        r = chk.coq_eval("all", IMPORTS, "case_in", cases,
                         ["mismatches run_case cases",
                          "where_ (fun i r => negb (spec_case_ok i r)) cases",
                          "mismatches run_case_pinned cases"], shard=shard)
        if r is not None:
            pinned_bad = set(r[2])

            def stream_ts(k):
                n, i = allc[k]
                return raw_in[n][i] if n == "optimize" else raw_in[n][i][0] if n == "consume" else None

            for k in r[0]:
                ts = stream_ts(k)
                if ts is not None and dash_hidden_by_clear(ts) and k not in pinned_bad:
                    continue    # the pinned tree's known defect, reported by the oracle above
                corr_bad.append(allc[k])
            for k in r[1]:
                ts = stream_ts(k)
                if ts is not None and dash_hidden_by_clear(ts):
                    continue    # same failure as the oracle's, classified there
                spec_bad.append(allc[k])

    # ---------------- report
    n_prop = 0
    for cls, detail in prop_fail:
        if cls is not None and chk.known_finding(cls, detail):
            continue
        if n_prop < 5:
            chk.violation("property", detail)
        n_prop += 1
    for name, i in spec_bad[:5]:
        if n_prop == 0:
            chk.violation("property", {"what": f"Spec_C12 (stream '{name}') rejects the implementation's result",
                                       "input": raw_in[name][i], "implementation": per_stream[name][i][1]})
            n_prop += 1
    for name, i in corr_bad[:5]:
        chk.violation("correspondence",
                      {"what": f"implementation and Model_C12 disagree on stream '{name}' "
                               "(the theorems of Prop_C12 no longer speak about this code)",
                       "input": raw_in[name][i], "implementation": per_stream[name][i][1]},
                      no_input=(n_prop == 0))


def replay(chk: Check, data):
    from pkgcore.ebuild import misc
    d = data.get("detail", {})
    inp = d.get("input", {})
    ts = inp.get("tokens") if isinstance(inp, dict) else None
    if ts is None:
        print("no token stream recorded in this replay file")
        return
    orig = inp.get("orig", [])
    print("tokens:", ts, "orig:", orig)
    print("incremental_expansion:", call(lambda: sorted(misc.incremental_expansion(list(ts), set(orig)))))
    print("optimize_incrementals:", call(lambda: list(misc.optimize_incrementals(list(ts)))))
    print("left-to-right reference:", ref_expand(ts, orig, True))
