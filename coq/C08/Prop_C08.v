(* Prop_C08.v — the property theorems of C08 and nothing else. *)
From Coq Require Import List NArith ZArith Bool Sorting.Sorted Sorting.Permutation.
Import ListNotations.
From Verif Require Import Base.Val C06.Restr C08.Ord_C08 C08.Model_C08 C08.Spec_C08 C08.Proofs_C08.

Theorem dedup_NoDup : forall l, NoDup (dedup l).
Proof. exact dedup_NoDup_proof. Qed.
Print Assumptions dedup_NoDup.
