(* Model_C37.v — executable model of pkgcore.bugzilla.query (src/pkgcore/bugzilla/query.py):
   Criterion.render / ChartGroup.render / _render, BugQuery.params, _merge_simple, __and__,
   any_of, paged, _split_axis, _rebuild_simple, _rebuild_chart, batches, and the named
   constructors.  Bug-compatible; no proofs here.

   Parameter keys are kept structured ([pkey]) inside the model and printed with [key_str]
   (decimal slot numbers) for the comparison with the implementation; the theorems speak
   about the printed form through [Spec_C37.classify]. *)
From Coq Require Import List NArith ZArith Bool Decimal.
Import ListNotations.
From Verif Require Import Base.Val.

(* ------------------------------------------------------------------ string constants *)
Definition s_id : str := [105;100]%N. (* id *)
Definition s_limit : str := [108;105;109;105;116]%N. (* limit *)
Definition s_offset : str := [111;102;102;115;101;116]%N. (* offset *)
Definition s_order : str := [111;114;100;101;114]%N. (* order *)
Definition s_OP : str := [79;80]%N. (* OP *)
Definition s_CP : str := [67;80]%N. (* CP *)
Definition s_AND : str := [65;78;68]%N. (* AND *)
Definition s_OR : str := [79;82]%N. (* OR *)
Definition s_AND_G : str := [65;78;68;95;71]%N. (* AND_G *)
Definition s_one : str := [49]%N. (* 1 *)
Definition s_product : str := [112;114;111;100;117;99;116]%N. (* product *)
Definition s_component : str := [99;111;109;112;111;110;101;110;116]%N. (* component *)
Definition s_resolution : str := [114;101;115;111;108;117;116;105;111;110]%N. (* resolution *)
Definition s_bug_status : str := [98;117;103;95;115;116;97;116;117;115]%N. (* bug_status *)
Definition s_cc : str := [99;99]%N. (* cc *)
Definition s_assigned_to : str := [97;115;115;105;103;110;101;100;95;116;111]%N. (* assigned_to *)
Definition s_keywords : str := [107;101;121;119;111;114;100;115]%N. (* keywords *)
Definition s_anywords : str := [97;110;121;119;111;114;100;115]%N. (* anywords *)
Definition s_flagtypes_name : str := [102;108;97;103;116;121;112;101;115;46;110;97;109;101]%N. (* flagtypes.name *)
Definition s_tag : str := [116;97;103]%N. (* tag *)
Definition s_nowordssubstr : str := [110;111;119;111;114;100;115;115;117;98;115;116;114]%N. (* nowordssubstr *)
Definition s_cf_atoms : str := [99;102;95;115;116;97;98;105;108;105;115;97;116;105;111;110;95;97;116;111;109;115]%N. (* cf_stabilisation_atoms *)
Definition s_gentoo_linux : str := [71;101;110;116;111;111;32;76;105;110;117;120]%N. (* Gentoo Linux *)
Definition s_unresolved : str := [45;45;45]%N. (* --- *)
Definition s_usage : str := [66;117;103;122;105;108;108;97;85;115;97;103;101;69;114;114;111;114]%N. (* BugzillaUsageError *)

(* ------------------------------------------------------------------ decimal printing: str(int) *)
Fixpoint uint_digits (u : uint) : str :=
  match u with
  | Nil => []
  | D0 u => 48%N :: uint_digits u | D1 u => 49%N :: uint_digits u | D2 u => 50%N :: uint_digits u
  | D3 u => 51%N :: uint_digits u | D4 u => 52%N :: uint_digits u | D5 u => 53%N :: uint_digits u
  | D6 u => 54%N :: uint_digits u | D7 u => 55%N :: uint_digits u | D8 u => 56%N :: uint_digits u
  | D9 u => 57%N :: uint_digits u
  end.
Definition dec_N (n : N) : str := uint_digits (N.to_uint n).
Definition dec_Z (z : Z) : str :=
  match z with
  | Zneg p => 45%N :: dec_N (Npos p)
  | _ => dec_N (Z.to_N z)
  end.

(* ------------------------------------------------------------------ charts *)
Inductive join := JAnd | JOr | JAndG.
Definition join_str (j : join) : str :=
  match j with JAnd => s_AND | JOr => s_OR | JAndG => s_AND_G end.

Inductive chart :=
| Crit (field op : str) (values : list str) (negate splittable : bool)
| Group (j : join) (children : list chart).

(* f<N> o<N> v<N> n<N> j<N> *)
Inductive ckind := KF | KO | KV | KN | KJ.
Definition ckind_char (k : ckind) : N :=
  match k with KF => 102 | KO => 111 | KV => 118 | KN => 110 | KJ => 106 end%N.
Inductive pkey := PS (name : str) | PC (k : ckind) (slot : N).
Definition key_str (k : pkey) : str :=
  match k with PS n => n | PC k s => ckind_char k :: dec_N s end.

Definition kparams := list (pkey * str).

(* Criterion.render (query.py:50) *)
Definition crit_params (f o : str) (vs : list str) (n : bool) (slot : N) : kparams :=
  [(PC KF slot, f); (PC KO slot, o)] ++ map (fun v => (PC KV slot, v)) vs
  ++ (if n then [(PC KN slot, s_one)] else []).

(* _render / ChartGroup.render (query.py:68, :78): rendered parameters and the next free slot *)
Fixpoint render_k (c : chart) (slot : N) : kparams * N :=
  match c with
  | Crit f o vs n _ => (crit_params f o vs n slot, N.succ slot)
  | Group j cs =>
      let r := (fix go (cs : list chart) (s : N) : kparams * N :=
                  match cs with
                  | [] => ([], s)
                  | c :: r => let (p1, s1) := render_k c s in
                              let (p2, s2) := go r s1 in (p1 ++ p2, s2)
                  end) cs (N.succ slot) in
      ((PC KF slot, s_OP) :: (PC KJ slot, join_str j) :: fst r ++ [(PC KF (snd r), s_CP)],
       N.succ (snd r))
  end.
Fixpoint render_list (cs : list chart) (s : N) : kparams * N :=
  match cs with
  | [] => ([], s)
  | c :: r => let (p1, s1) := render_k c s in
              let (p2, s2) := render_list r s1 in (p1 ++ p2, s2)
  end.

(* ------------------------------------------------------------------ queries *)
Record query := { simple : list (str * list str); charts : list chart;
                  limit : option Z; offset : option Z; order : option str }.
Definition empty_query : query :=
  {| simple := []; charts := []; limit := None; offset := None; order := None |}.

Definition simple_params (s : list (str * list str)) : kparams :=
  flat_map (fun kv => map (fun v => (PS (fst kv), v)) (snd kv)) s.
Definition tail_params (q : query) : kparams :=
  (match limit q with Some l => [(PS s_limit, dec_Z l)] | None => [] end)
  ++ (match offset q with
      | Some o => if Z.eqb o 0 then [] else [(PS s_offset, dec_Z o)]
      | None => [] end)
  ++ (match order q with Some o => [(PS s_order, o)] | None => [] end).

(* BugQuery.params (query.py:239) *)
Definition params_k (q : query) : kparams :=
  simple_params (simple q) ++ fst (render_list (charts q) 1) ++ tail_params q.
Definition print_params (ps : kparams) : list (str * str) :=
  map (fun kv => (key_str (fst kv), snd kv)) ps.
Definition params (q : query) : list (str * str) := print_params (params_k q).

(* ------------------------------------------------------------------ & *)
Definition sdict := list (str * list str).
Fixpoint dict_get (d : sdict) (k : str) : option (list str) :=
  match d with
  | [] => None
  | (k', v) :: r => if str_eqb k' k then Some v else dict_get r k
  end.
(* d[k] = v on an insertion-ordered dict *)
Fixpoint dict_set (d : sdict) (k : str) (v : list str) : sdict :=
  match d with
  | [] => [(k, v)]
  | (k', v') :: r => if str_eqb k' k then (k', v) :: r else (k', v') :: dict_set r k v
  end.
Definition dict_of (l : sdict) : sdict :=
  fold_left (fun d kv => dict_set d (fst kv) (snd kv)) l [].
Definition mem_str (x : str) (l : list str) : bool := existsb (str_eqb x) l.
Definition get_or_nil (d : sdict) (k : str) : list str :=
  match dict_get d k with Some e => e | None => [] end.
(* _merge_simple (query.py:92) *)
Definition merge_step (d : sdict) (kv : str * list str) : sdict :=
  let ex := get_or_nil d (fst kv) in
  dict_set d (fst kv) (ex ++ filter (fun x => negb (mem_str x ex)) (snd kv)).
Definition merge_simple (l r : sdict) : sdict := fold_left merge_step r (dict_of l).

(* BugQuery.__and__ (query.py:218) *)
Definition and_q (a b : query) : query :=
  {| simple := merge_simple (simple a) (simple b);
     charts := charts a ++ charts b;
     limit := match limit b with None => limit a | l => l end;
     offset := match offset b with None => offset a | o => o end;
     order := match order b with Some (c :: r) => Some (c :: r) | _ => order a end |}.

(* BugQuery.any_of (query.py:202); None = BugzillaUsageError *)
Definition is_nil {A} (l : list A) : bool := match l with [] => true | _ => false end.
Definition any_of (qs : list query) : option query :=
  if forallb (fun q => is_nil (simple q)) qs
  then Some {| simple := []; charts := [Group JOr (flat_map charts qs)];
               limit := None; offset := None; order := None |}
  else None.

(* BugQuery.paged (query.py:227) *)
Definition paged (q : query) (l o : Z) : option query :=
  if (l <=? 0)%Z then None else if (o <? 0)%Z then None else
  Some {| simple := simple q; charts := charts q; limit := Some l; offset := Some o; order := order q |}.

(* ------------------------------------------------------------------ batches *)
Inductive axis :=
| AxSimple (key : str) (vals : list str)
| AxChart (idx : nat) (field : str) (vals : list str).
Definition ax_vals (a : axis) : list str :=
  match a with AxSimple _ v => v | AxChart _ _ v => v end.
(* the key used by batches() to price one value: the simple key, or the criterion's FIELD *)
Definition ax_cost_key (a : axis) : str :=
  match a with AxSimple k _ => k | AxChart _ f _ => f end.

Fixpoint chart_cands (i : nat) (cs : list chart) : list axis :=
  match cs with
  | [] => []
  | Crit f _ vs _ true :: r => AxChart i f vs :: chart_cands (S i) r
  | _ :: r => chart_cands (S i) r
  end.
Definition candidates (q : query) : list axis :=
  flat_map (fun kv => if str_eqb (fst kv) s_id then [AxSimple (fst kv) (snd kv)] else []) (simple q)
  ++ chart_cands 0 (charts q).
(* len("".join(values)) *)
Definition joined_len (vs : list str) : N :=
  fold_right (fun v a => (N.of_nat (length v) + a)%N) 0%N vs.
(* max(candidates, key=...) keeps the first of equally wide axes *)
Fixpoint first_max (best : axis) (rest : list axis) : axis :=
  match rest with
  | [] => best
  | a :: r => if (joined_len (ax_vals best) <? joined_len (ax_vals a))%N
              then first_max a r else first_max best r
  end.
(* BugQuery._split_axis (query.py:287) *)
Definition split_axis (q : query) : option axis :=
  match candidates q with [] => None | a :: r => Some (first_max a r) end.

Definition with_values (c : chart) (vs : list str) : chart :=
  match c with Crit f o _ n s => Crit f o vs n s | g => g end.
Fixpoint replace_nth (i : nat) (cs : list chart) (vs : list str) : list chart :=
  match cs, i with
  | [], _ => []
  | c :: r, O => with_values c vs :: r
  | c :: r, S i' => c :: replace_nth i' r vs
  end.
(* _rebuild_simple / _rebuild_chart (query.py:303, :309) *)
Definition rebuild (q : query) (a : axis) (vs : list str) : query :=
  match a with
  | AxSimple key _ =>
      {| simple := filter (fun kv => negb (str_eqb (fst kv) key)) (simple q)
                   ++ (if is_nil vs then [] else [(key, vs)]);
         charts := charts q; limit := limit q; offset := offset q; order := order q |}
  | AxChart i _ _ =>
      {| simple := simple q; charts := replace_nth i (charts q) vs;
         limit := limit q; offset := offset q; order := order q |}
  end.

(* len(urllib.parse.urlencode(params)) for an encoded-length function [enc] of one string
   (quote_plus): pairs are key=value joined by & *)
Definition pair_len (enc : str -> N) (kv : pkey * str) : N :=
  (enc (key_str (fst kv)) + 1 + enc (snd kv))%N.
Definition tot_len (enc : str -> N) (ps : kparams) : N :=
  fold_right (fun kv a => (pair_len enc kv + 1 + a)%N) 0%N ps.
Definition ulen (enc : str -> N) (ps : kparams) : N := N.pred (tot_len enc ps).

(* the loop of batches(): the value chunks, in order *)
Fixpoint chunks (cost : str -> Z) (budget : Z) (vals : list str) (batch_rev : list str) (used : Z)
  : list (list str) :=
  match vals with
  | [] => [List.rev batch_rev]
  | v :: r =>
      let c := cost v in
      if negb (is_nil batch_rev) && (budget <? used + c)%Z
      then List.rev batch_rev :: chunks cost budget r [v] c
      else chunks cost budget r (v :: batch_rev) (used + c)%Z
  end.
Definition value_cost (enc : str -> N) (key : str) (v : str) : Z :=
  Z.of_N (enc key + 1 + enc v + 1).
Definition budget_of (enc : str -> N) (q : query) (a : axis) (base max : Z) : Z :=
  (max - base - Z.of_N (ulen enc (params_k (rebuild q a []))))%Z.
(* BugQuery.batches (query.py:260) *)
Definition batches (enc : str -> N) (q : query) (base max : Z) : list query :=
  match split_axis q with
  | None => [q]
  | Some a =>
      map (rebuild q a)
          (chunks (value_cost enc (ax_cost_key a)) (budget_of enc q a base max) (ax_vals a) [] 0%Z)
  end.

(* the concrete encoded length: len(urllib.parse.quote_plus(s)) *)
Definition is_safe (c : N) : bool :=
  ((48 <=? c) && (c <=? 57) || (65 <=? c) && (c <=? 90) || (97 <=? c) && (c <=? 122)
   || (c =? 95) || (c =? 46) || (c =? 45) || (c =? 126) || (c =? 32))%N.
Definition qlen_char (c : N) : N :=
  (if is_safe c then 1 else if c <? 128 then 3 else if c <? 2048 then 6
   else if c <? 65536 then 9 else 12)%N.
Definition qlen (s : str) : N := fold_right (fun c a => (qlen_char c + a)%N) 0%N s.

(* ------------------------------------------------------------------ named constructors *)
Definition q_simple (s : sdict) : query :=
  {| simple := s; charts := []; limit := None; offset := None; order := None |}.
Definition q_chart (c : chart) : query :=
  {| simple := []; charts := [c]; limit := None; offset := None; order := None |}.
(* 0 ids 1 product 2 component 3 resolution 4 status 5 cc 6 assigned_to 7 unresolved 8 keywords
   9 flag(name, statuses...) 10 without_tags 11 package_list_any 12 category *)
Definition ctor (id : N) (args : list str) : query :=
  match id with
  | 0 => q_simple [(s_id, args)]
  | 1 => q_simple [(s_product, args)]
  | 2 => q_simple [(s_component, args)]
  | 3 => q_simple [(s_resolution, args)]
  | 4 => q_simple [(s_bug_status, args)]
  | 5 => q_simple [(s_cc, args)]
  | 6 => q_simple [(s_assigned_to, args)]
  | 7 => q_simple [(s_resolution, [s_unresolved])]
  | 8 => q_chart (Crit s_keywords s_anywords args false false)
  | 9 => match args with
         | [] => empty_query
         | name :: sts => q_chart (Crit s_flagtypes_name s_anywords (map (fun s => name ++ s) sts) false false)
         end
  | 10 => q_chart (Crit s_tag s_nowordssubstr args false false)
  | 11 => q_chart (Crit s_cf_atoms s_anywords args false true)
  | _ => q_simple [(s_product, [s_gentoo_linux]); (s_component, args)]
  end%N.

(* ------------------------------------------------------------------ encoders for the harness *)
Definition enc_strs (l : list str) : val := VL (map VS l).
Definition enc_params (ps : list (str * str)) : val :=
  VL (map (fun kv => VL [VS (fst kv); VS (snd kv)]) ps).
Fixpoint enc_chart (c : chart) : val :=
  match c with
  | Crit f o vs n s => VL [VS f; VS o; enc_strs vs; VB n; VB s]
  | Group j cs => VL [VS (join_str j); VL (map enc_chart cs)]
  end.
Definition enc_optZ (o : option Z) : val := match o with Some z => VZ z | None => VNone end.
Definition enc_query (q : query) : val :=
  VL [VL (map (fun kv => VL [VS (fst kv); enc_strs (snd kv)]) (simple q));
      VL (map enc_chart (charts q));
      enc_optZ (limit q); enc_optZ (offset q);
      match order q with Some o => VS o | None => VNone end].
Definition enc_optq (o : option query) : val :=
  match o with Some q => enc_query q | None => VErr s_usage end.

(* stream "ctor": named constructor -> query structure and its params() *)
Definition run_ctor (i : N * list str) : val :=
  let q := ctor (fst i) (snd i) in VL [enc_query q; enc_params (params q)].
(* stream "params": query -> params() *)
Definition run_params (q : query) : val := enc_params (params q).
(* stream "and": (a, b) -> [params a; params b; structure of a & b; params (a & b)] *)
Definition run_and (i : query * query * list (list (str * list str))) : val :=
  let '(a, b, _) := i in
  VL [enc_params (params a); enc_params (params b); enc_query (and_q a b); enc_params (params (and_q a b))].
(* stream "anyof": operands -> [params of each operand; structure; params] or the usage error *)
Definition run_anyof (i : list query * list (list (str * list str))) : val :=
  match any_of (fst i) with
  | None => VErr s_usage
  | Some q => VL [VL (map (fun o => enc_params (params o)) (fst i)); enc_query q; enc_params (params q)]
  end.
(* stream "paged" *)
Definition run_paged (i : query * Z * Z) : val :=
  let '(q, l, o) := i in
  match paged q l o with None => VErr s_usage | Some q' => VL [enc_query q'; enc_params (params q')] end.
(* stream "batches": (q, base, max) -> [params() of every batch] *)
Definition run_batches (i : query * Z * Z) : val :=
  let '(q, b, m) := i in VL (map (fun x => enc_params (params x)) (batches qlen q b m)).
(* stream "enclen": len(urlencode(params(q))) *)
Definition run_enclen (q : query) : val := VZ (Z.of_N (ulen qlen (params_k q))).
