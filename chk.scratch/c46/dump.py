import sys, shutil
from harness.common import Check
import harness.c46 as m
chk=Check("C46","quick")
chk.build=lambda *a,**k: True
chk.check_assumptions=lambda *a,**k: True
orig=chk.coq_eval
def ce(name,*a,**k):
    r=orig(name,*a,**k)
    import glob
    for f in glob.glob(str(chk.scratch/"cases_*.v")): shutil.copy(f,"/verif/chk.scratch/c46/")
    return r
chk.coq_eval=ce
m.main(chk)
