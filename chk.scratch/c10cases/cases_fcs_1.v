From Coq Require Import List NArith ZArith Bool.
From Verif Require Import Base.Val C10.Model_C10 C10.Spec_C10.
Import ListNotations.

Definition cases : list ((fcs_input) * val) := 
[
  (([(Cond false 1%N [(Flag false false [1%N]); (Flag false false [2%N])])], ([5%N], [1%N; 6%N], [2%N], [1%N])),
   (sols_val true 38 [0; 32]%N));
  (([(Cond false 1%N [(Flag false false [1%N]); (Flag false false [2%N])])], ([1%N], (@nil (N)), (@nil (N)), [5%N])),
   (sols_val true 6 [0]%N));
  (([(Cond false 1%N [(Flag false false [1%N]); (Flag false false [2%N])])], ([2%N], (@nil (N)), (@nil (N)), (@nil (N)))),
   (sols_val true 6 [0; 4]%N));
  (([(Cond false 1%N [(Flag false false [1%N]); (Flag false false [2%N])])], ([1%N; 2%N], [2%N], (@nil (N)), (@nil (N)))),
   (sols_val true 6 [4; 6]%N));
  (([(Cond true 4%N [(Flag true false [1%N]); (Cond false 4%N [(Flag true false [0%N]); (Flag false false [0%N]); (Flag true false [3%N])]); (Flag false false [0%N])])], ([0%N; 4%N], [0%N; 4%N], [3%N], [1%N; 6%N])),
   (sols_val true 27 [17]%N));
  (([(Cond true 4%N [(Flag true false [1%N]); (Cond false 4%N [(Flag true false [0%N]); (Flag false false [0%N]); (Flag true false [3%N])]); (Flag false false [0%N])])], ([0%N; 1%N; 3%N], (@nil (N)), (@nil (N)), [5%N; 6%N])),
   (sols_val false 27 [1; 9]%N));
  (([(Cond true 4%N [(Flag true false [1%N]); (Cond false 4%N [(Flag true false [0%N]); (Flag false false [0%N]); (Flag true false [3%N])]); (Flag false false [0%N])])], ((@nil (N)), (@nil (N)), [0%N], (@nil (N)))),
   (sols_val false 0 nil));
  (([(Cond true 4%N [(Flag true false [1%N]); (Cond false 4%N [(Flag true false [0%N]); (Flag false false [0%N]); (Flag true false [3%N])]); (Flag false false [0%N])])], ([0%N; 1%N], [0%N], (@nil (N)), [1%N; 5%N])),
   (sols_val false 27 [1]%N));
  (([(Cond true 4%N [(Flag true false [1%N]); (Cond false 4%N [(Flag true false [0%N]); (Flag false false [0%N]); (Flag true false [3%N])]); (Flag false false [0%N])])], ([0%N; 1%N; 3%N; 4%N], [1%N; 6%N], [0%N], [1%N; 3%N; 4%N; 5%N; 6%N])),
   (sols_val true 27 [18; 26]%N));
  (([(Cond true 4%N [(Flag true false [1%N]); (Cond false 4%N [(Flag true false [0%N]); (Flag false false [0%N]); (Flag true false [3%N])]); (Flag false false [0%N])])], ([1%N; 4%N], [0%N; 1%N], [3%N], [0%N; 3%N; 6%N])),
   (sols_val false 27 [18]%N));
  (([(Cond true 4%N [(Flag true false [1%N]); (Cond false 4%N [(Flag true false [0%N]); (Flag false false [0%N]); (Flag true false [3%N])]); (Flag false false [0%N])])], ([0%N; 5%N], [5%N], (@nil (N)), [1%N; 3%N])),
   (sols_val false 59 [33]%N));
  (([(Cond true 4%N [(Flag true false [1%N]); (Cond false 4%N [(Flag true false [0%N]); (Flag false false [0%N]); (Flag true false [3%N])]); (Flag false false [0%N])])], ([4%N], (@nil (N)), (@nil (N)), [4%N; 6%N])),
   (sols_val true 27 [16]%N));
  (([(Cond true 4%N [(Flag true false [1%N]); (Cond false 4%N [(Flag true false [0%N]); (Flag false false [0%N]); (Flag true false [3%N])]); (Flag false false [0%N])])], ([0%N; 1%N; 4%N], [6%N], (@nil (N)), [0%N; 1%N; 3%N; 5%N; 6%N])),
   (sols_val false 27 [1; 16; 17; 18; 19]%N));
  (([(Cond true 4%N [(Flag true false [1%N]); (Cond false 4%N [(Flag true false [0%N]); (Flag false false [0%N]); (Flag true false [3%N])]); (Flag false false [0%N])])], ([0%N; 3%N; 4%N], (@nil (N)), (@nil (N)), [4%N; 5%N])),
   (sols_val true 27 [1; 9; 16; 17; 24; 25]%N));
  (([(Flag false false [0%N])], ((@nil (N)), (@nil (N)), (@nil (N)), [6%N])),
   (sols_val false 0 nil));
  (([(Flag false false [0%N])], ([0%N], [5%N], (@nil (N)), [5%N; 6%N])),
   (sols_val false 1 [1]%N));
  (([(Grp KAmo false [(Cond true 0%N [(Cond false 0%N [(Flag false false [0%N])]); (Grp KOne false [(Flag true false [0%N]); (Flag false false [0%N]); (Flag true false [0%N])]); (Grp KOne false [(Flag false false [0%N]); (Flag false false [0%N]); (Flag false false [0%N])])]); (Flag true false [0%N])])], ([5%N], [5%N], (@nil (N)), (@nil (N)))),
   (sols_val true 33 [32]%N));
  (([(Grp KAmo false [(Cond true 0%N [(Cond false 0%N [(Flag false false [0%N])]); (Grp KOne false [(Flag true false [0%N]); (Flag false false [0%N]); (Flag true false [0%N])]); (Grp KOne false [(Flag false false [0%N]); (Flag false false [0%N]); (Flag false false [0%N])])]); (Flag true false [0%N])])], ([0%N], [0%N], (@nil (N)), [0%N])),
   (sols_val true 1 [1]%N));
  (([(Grp KOr false [(Flag false false [0%N]); (Flag true false [0%N])]); (Cond false 0%N [(Flag false false [0%N]); (Flag true false [0%N]); (Cond false 0%N [(Flag false false [0%N])])])], ((@nil (N)), (@nil (N)), [0%N], [0%N; 5%N; 6%N])),
   (sols_val true 1 [0]%N));
  (([(Grp KOr false [(Flag false false [0%N]); (Flag true false [0%N])]); (Cond false 0%N [(Flag false false [0%N]); (Flag true false [0%N]); (Cond false 0%N [(Flag false false [0%N])])])], ([0%N; 5%N], (@nil (N)), (@nil (N)), (@nil (N)))),
   (sols_val true 33 [0; 32]%N));
  (([(Grp KAnd false [(Grp KOr false [(Flag false false [0%N]); (Cond false 0%N [(Flag false false [0%N]); (Flag true false [0%N]); (Flag false false [0%N])])]); (Cond true 0%N [(Flag true false [0%N]); (Flag false false [0%N]); (Flag false false [0%N])])]); (Flag false false [0%N])], ((@nil (N)), (@nil (N)), (@nil (N)), [0%N; 6%N])),
   (sols_val false 0 nil));
  (([(Grp KAnd false [(Grp KOr false [(Flag false false [0%N]); (Cond false 0%N [(Flag false false [0%N]); (Flag true false [0%N]); (Flag false false [0%N])])]); (Cond true 0%N [(Flag true false [0%N]); (Flag false false [0%N]); (Flag false false [0%N])])]); (Flag false false [0%N])], ([0%N], (@nil (N)), [0%N], [0%N; 6%N])),
   (sols_val false 0 nil));
  (([(Flag false false [0%N]); (Grp KAmo false [(Cond true 0%N [(Flag false false [0%N]); (Cond false 0%N [(Flag true false [0%N])]); (Cond true 0%N [(Flag false false [0%N]); (Flag false false [0%N]); (Flag false false [0%N])])]); (Cond true 0%N [(Flag true false [0%N]); (Grp KOr false [(Flag false false [0%N]); (Flag false false [0%N])])]); (Grp KOne false [(Grp KOne false [(Flag false false [0%N]); (Flag false false [0%N]); (Flag false false [0%N])]); (Grp KAnd false [(Flag false false [0%N]); (Flag false false [0%N]); (Flag false false [0%N])])])])], ([5%N], (@nil (N)), (@nil (N)), (@nil (N)))),
   (sols_val false 0 nil));
  (([(Flag false false [0%N]); (Grp KAmo false [(Cond true 0%N [(Flag false false [0%N]); (Cond false 0%N [(Flag true false [0%N])]); (Cond true 0%N [(Flag false false [0%N]); (Flag false false [0%N]); (Flag false false [0%N])])]); (Cond true 0%N [(Flag true false [0%N]); (Grp KOr false [(Flag false false [0%N]); (Flag false false [0%N])])]); (Grp KOne false [(Grp KOne false [(Flag false false [0%N]); (Flag false false [0%N]); (Flag false false [0%N])]); (Grp KAnd false [(Flag false false [0%N]); (Flag false false [0%N]); (Flag false false [0%N])])])])], ([0%N], (@nil (N)), (@nil (N)), [6%N])),
   (sols_val false 0 nil));
  (([(Flag false false [1%N]); (Grp KOr false [(Grp KAmo false [(Flag false false [2%N]); (Cond false 0%N [(Flag false false [2%N]); (Flag false false [2%N])]); (Cond true 1%N [(Flag false false [1%N]); (Flag false false [1%N])])]); (Cond true 3%N [(Flag false false [3%N]); (Grp KOr false [(Flag false false [1%N]); (Flag false false [2%N]); (Flag false false [3%N])])])]); (Grp KAnd false [(Flag false false [0%N]); (Cond false 3%N [(Flag false false [3%N]); (Grp KOr false [(Flag true false [1%N]); (Flag false false [2%N]); (Flag false false [1%N])]); (Grp KAmo false [(Flag false false [0%N]); (Flag true false [0%N])])])])], ([2%N; 3%N], (@nil (N)), (@nil (N)), [0%N; 1%N; 2%N; 3%N; 5%N])),
   (sols_val false 0 nil));
  (([(Flag false false [1%N]); (Grp KOr false [(Grp KAmo false [(Flag false false [2%N]); (Cond false 0%N [(Flag false false [2%N]); (Flag false false [2%N])]); (Cond true 1%N [(Flag false false [1%N]); (Flag false false [1%N])])]); (Cond true 3%N [(Flag false false [3%N]); (Grp KOr false [(Flag false false [1%N]); (Flag false false [2%N]); (Flag false false [3%N])])])]); (Grp KAnd false [(Flag false false [0%N]); (Cond false 3%N [(Flag false false [3%N]); (Grp KOr false [(Flag true false [1%N]); (Flag false false [2%N]); (Flag false false [1%N])]); (Grp KAmo false [(Flag false false [0%N]); (Flag true false [0%N])])])])], ((@nil (N)), (@nil (N)), (@nil (N)), [0%N; 1%N; 3%N; 5%N; 6%N])),
   (sols_val false 0 nil));
  (([(Flag false false [1%N]); (Grp KOr false [(Grp KAmo false [(Flag false false [2%N]); (Cond false 0%N [(Flag false false [2%N]); (Flag false false [2%N])]); (Cond true 1%N [(Flag false false [1%N]); (Flag false false [1%N])])]); (Cond true 3%N [(Flag false false [3%N]); (Grp KOr false [(Flag false false [1%N]); (Flag false false [2%N]); (Flag false false [3%N])])])]); (Grp KAnd false [(Flag false false [0%N]); (Cond false 3%N [(Flag false false [3%N]); (Grp KOr false [(Flag true false [1%N]); (Flag false false [2%N]); (Flag false false [1%N])]); (Grp KAmo false [(Flag false false [0%N]); (Flag true false [0%N])])])])], ([0%N; 2%N; 3%N], (@nil (N)), (@nil (N)), [0%N; 1%N; 3%N])),
   (sols_val false 0 nil));
  (([(Flag false false [1%N]); (Grp KOr false [(Grp KAmo false [(Flag false false [2%N]); (Cond false 0%N [(Flag false false [2%N]); (Flag false false [2%N])]); (Cond true 1%N [(Flag false false [1%N]); (Flag false false [1%N])])]); (Cond true 3%N [(Flag false false [3%N]); (Grp KOr false [(Flag false false [1%N]); (Flag false false [2%N]); (Flag false false [3%N])])])]); (Grp KAnd false [(Flag false false [0%N]); (Cond false 3%N [(Flag false false [3%N]); (Grp KOr false [(Flag true false [1%N]); (Flag false false [2%N]); (Flag false false [1%N])]); (Grp KAmo false [(Flag false false [0%N]); (Flag true false [0%N])])])])], ([2%N], [5%N], [0%N; 5%N; 6%N], [0%N; 1%N; 2%N])),
   (sols_val false 0 nil));
  (([(Flag false false [1%N]); (Grp KOr false [(Grp KAmo false [(Flag false false [2%N]); (Cond false 0%N [(Flag false false [2%N]); (Flag false false [2%N])]); (Cond true 1%N [(Flag false false [1%N]); (Flag false false [1%N])])]); (Cond true 3%N [(Flag false false [3%N]); (Grp KOr false [(Flag false false [1%N]); (Flag false false [2%N]); (Flag false false [3%N])])])]); (Grp KAnd false [(Flag false false [0%N]); (Cond false 3%N [(Flag false false [3%N]); (Grp KOr false [(Flag true false [1%N]); (Flag false false [2%N]); (Flag false false [1%N])]); (Grp KAmo false [(Flag false false [0%N]); (Flag true false [0%N])])])])], ([3%N], (@nil (N)), [1%N; 6%N], [0%N; 1%N; 6%N])),
   (sols_val false 0 nil));
  (([(Flag false false [1%N]); (Grp KOr false [(Grp KAmo false [(Flag false false [2%N]); (Cond false 0%N [(Flag false false [2%N]); (Flag false false [2%N])]); (Cond true 1%N [(Flag false false [1%N]); (Flag false false [1%N])])]); (Cond true 3%N [(Flag false false [3%N]); (Grp KOr false [(Flag false false [1%N]); (Flag false false [2%N]); (Flag false false [3%N])])])]); (Grp KAnd false [(Flag false false [0%N]); (Cond false 3%N [(Flag false false [3%N]); (Grp KOr false [(Flag true false [1%N]); (Flag false false [2%N]); (Flag false false [1%N])]); (Grp KAmo false [(Flag false false [0%N]); (Flag true false [0%N])])])])], ([0%N; 1%N], (@nil (N)), (@nil (N)), [2%N; 3%N; 5%N])),
   (sols_val false 15 [3]%N));
  (([(Flag false false [1%N]); (Grp KOr false [(Grp KAmo false [(Flag false false [2%N]); (Cond false 0%N [(Flag false false [2%N]); (Flag false false [2%N])]); (Cond true 1%N [(Flag false false [1%N]); (Flag false false [1%N])])]); (Cond true 3%N [(Flag false false [3%N]); (Grp KOr false [(Flag false false [1%N]); (Flag false false [2%N]); (Flag false false [3%N])])])]); (Grp KAnd false [(Flag false false [0%N]); (Cond false 3%N [(Flag false false [3%N]); (Grp KOr false [(Flag true false [1%N]); (Flag false false [2%N]); (Flag false false [1%N])]); (Grp KAmo false [(Flag false false [0%N]); (Flag true false [0%N])])])])], ([0%N; 1%N; 3%N], [0%N], [0%N], [0%N; 1%N; 2%N; 5%N; 6%N])),
   (VErr [65;115;115;101;114;116;105;111;110;69;114;114;111;114]%N));
  (([(Flag false false [1%N]); (Grp KOr false [(Grp KAmo false [(Flag false false [2%N]); (Cond false 0%N [(Flag false false [2%N]); (Flag false false [2%N])]); (Cond true 1%N [(Flag false false [1%N]); (Flag false false [1%N])])]); (Cond true 3%N [(Flag false false [3%N]); (Grp KOr false [(Flag false false [1%N]); (Flag false false [2%N]); (Flag false false [3%N])])])]); (Grp KAnd false [(Flag false false [0%N]); (Cond false 3%N [(Flag false false [3%N]); (Grp KOr false [(Flag true false [1%N]); (Flag false false [2%N]); (Flag false false [1%N])]); (Grp KAmo false [(Flag false false [0%N]); (Flag true false [0%N])])])])], ([0%N; 1%N; 2%N; 3%N], (@nil (N)), [0%N; 1%N], [3%N; 5%N])),
   (sols_val false 0 nil));
  (([(Flag false false [1%N]); (Grp KOr false [(Grp KAmo false [(Flag false false [2%N]); (Cond false 0%N [(Flag false false [2%N]); (Flag false false [2%N])]); (Cond true 1%N [(Flag false false [1%N]); (Flag false false [1%N])])]); (Cond true 3%N [(Flag false false [3%N]); (Grp KOr false [(Flag false false [1%N]); (Flag false false [2%N]); (Flag false false [3%N])])])]); (Grp KAnd false [(Flag false false [0%N]); (Cond false 3%N [(Flag false false [3%N]); (Grp KOr false [(Flag true false [1%N]); (Flag false false [2%N]); (Flag false false [1%N])]); (Grp KAmo false [(Flag false false [0%N]); (Flag true false [0%N])])])])], ([1%N; 2%N; 3%N], (@nil (N)), (@nil (N)), [5%N])),
   (sols_val false 0 nil));
  (([(Flag false false [1%N]); (Grp KOr false [(Grp KAmo false [(Flag false false [2%N]); (Cond false 0%N [(Flag false false [2%N]); (Flag false false [2%N])]); (Cond true 1%N [(Flag false false [1%N]); (Flag false false [1%N])])]); (Cond true 3%N [(Flag false false [3%N]); (Grp KOr false [(Flag false false [1%N]); (Flag false false [2%N]); (Flag false false [3%N])])])]); (Grp KAnd false [(Flag false false [0%N]); (Cond false 3%N [(Flag false false [3%N]); (Grp KOr false [(Flag true false [1%N]); (Flag false false [2%N]); (Flag false false [1%N])]); (Grp KAmo false [(Flag false false [0%N]); (Flag true false [0%N])])])])], ([0%N; 3%N], (@nil (N)), [1%N; 5%N], [1%N; 2%N; 3%N; 5%N; 6%N])),
   (sols_val false 0 nil));
  (([(Cond false 0%N [(Flag false false [0%N]); (Flag true false [0%N]); (Flag false false [0%N])])], ([5%N], (@nil (N)), (@nil (N)), (@nil (N)))),
   (sols_val true 33 [0; 32]%N));
  (([(Cond false 0%N [(Flag false false [0%N]); (Flag true false [0%N]); (Flag false false [0%N])])], ([0%N; 5%N], [6%N], (@nil (N)), [6%N])),
   (sols_val true 33 [0; 32]%N));
  (([(Grp KOr false [(Flag false false [2%N]); (Flag false false [0%N])]); (Cond false 0%N [(Grp KAnd false [(Grp KOr false [(Flag false false [0%N]); (Flag true false [0%N]); (Flag false false [3%N])]); (Grp KOne false [(Flag true false [1%N]); (Flag false false [0%N]); (Flag false false [1%N])]); (Grp KAmo false [(Flag false false [2%N]); (Flag false false [2%N])])]); (Cond false 2%N [(Grp KOne false [(Flag false false [2%N]); (Flag false false [1%N])]); (Flag true false [2%N]); (Flag false false [1%N])]); (Flag false false [0%N])])], ([0%N; 1%N; 2%N; 3%N; 5%N], (@nil (N)), [5%N], [0%N; 5%N])),
   (sols_val false 47 [4; 6; 12; 14]%N));
  (([(Grp KOr false [(Flag false false [2%N]); (Flag false false [0%N])]); (Cond false 0%N [(Grp KAnd false [(Grp KOr false [(Flag false false [0%N]); (Flag true false [0%N]); (Flag false false [3%N])]); (Grp KOne false [(Flag true false [1%N]); (Flag false false [0%N]); (Flag false false [1%N])]); (Grp KAmo false [(Flag false false [2%N]); (Flag false false [2%N])])]); (Cond false 2%N [(Grp KOne false [(Flag false false [2%N]); (Flag false false [1%N])]); (Flag true false [2%N]); (Flag false false [1%N])]); (Flag false false [0%N])])], ([0%N; 1%N; 3%N], [3%N; 6%N], [5%N], [0%N; 1%N; 2%N; 6%N])),
   (sols_val false 0 nil));
  (([(Grp KOr false [(Flag false false [2%N]); (Flag false false [0%N])]); (Cond false 0%N [(Grp KAnd false [(Grp KOr false [(Flag false false [0%N]); (Flag true false [0%N]); (Flag false false [3%N])]); (Grp KOne false [(Flag true false [1%N]); (Flag false false [0%N]); (Flag false false [1%N])]); (Grp KAmo false [(Flag false false [2%N]); (Flag false false [2%N])])]); (Cond false 2%N [(Grp KOne false [(Flag false false [2%N]); (Flag false false [1%N])]); (Flag true false [2%N]); (Flag false false [1%N])]); (Flag false false [0%N])])], ([0%N; 2%N], [1%N], [2%N], [2%N])),
   (sols_val false 0 nil));
  (([(Grp KOr false [(Flag false false [2%N]); (Flag false false [0%N])]); (Cond false 0%N [(Grp KAnd false [(Grp KOr false [(Flag false false [0%N]); (Flag true false [0%N]); (Flag false false [3%N])]); (Grp KOne false [(Flag true false [1%N]); (Flag false false [0%N]); (Flag false false [1%N])]); (Grp KAmo false [(Flag false false [2%N]); (Flag false false [2%N])])]); (Cond false 2%N [(Grp KOne false [(Flag false false [2%N]); (Flag false false [1%N])]); (Flag true false [2%N]); (Flag false false [1%N])]); (Flag false false [0%N])])], ([1%N; 2%N; 3%N], (@nil (N)), (@nil (N)), [1%N; 5%N; 6%N])),
   (sols_val false 15 [4; 6; 12; 14]%N));
  (([(Grp KOr false [(Flag false false [2%N]); (Flag false false [0%N])]); (Cond false 0%N [(Grp KAnd false [(Grp KOr false [(Flag false false [0%N]); (Flag true false [0%N]); (Flag false false [3%N])]); (Grp KOne false [(Flag true false [1%N]); (Flag false false [0%N]); (Flag false false [1%N])]); (Grp KAmo false [(Flag false false [2%N]); (Flag false false [2%N])])]); (Cond false 2%N [(Grp KOne false [(Flag false false [2%N]); (Flag false false [1%N])]); (Flag true false [2%N]); (Flag false false [1%N])]); (Flag false false [0%N])])], ([2%N; 5%N], (@nil (N)), (@nil (N)), [3%N])),
   (sols_val false 47 [4; 36]%N));
  (([(Grp KOr false [(Flag false false [2%N]); (Flag false false [0%N])]); (Cond false 0%N [(Grp KAnd false [(Grp KOr false [(Flag false false [0%N]); (Flag true false [0%N]); (Flag false false [3%N])]); (Grp KOne false [(Flag true false [1%N]); (Flag false false [0%N]); (Flag false false [1%N])]); (Grp KAmo false [(Flag false false [2%N]); (Flag false false [2%N])])]); (Cond false 2%N [(Grp KOne false [(Flag false false [2%N]); (Flag false false [1%N])]); (Flag true false [2%N]); (Flag false false [1%N])]); (Flag false false [0%N])])], ([1%N], (@nil (N)), [6%N], [3%N; 5%N; 6%N])),
   (sols_val false 0 nil));
  (([(Grp KOr false [(Flag false false [2%N]); (Flag false false [0%N])]); (Cond false 0%N [(Grp KAnd false [(Grp KOr false [(Flag false false [0%N]); (Flag true false [0%N]); (Flag false false [3%N])]); (Grp KOne false [(Flag true false [1%N]); (Flag false false [0%N]); (Flag false false [1%N])]); (Grp KAmo false [(Flag false false [2%N]); (Flag false false [2%N])])]); (Cond false 2%N [(Grp KOne false [(Flag false false [2%N]); (Flag false false [1%N])]); (Flag true false [2%N]); (Flag false false [1%N])]); (Flag false false [0%N])])], ([2%N; 3%N], [3%N], (@nil (N)), [3%N; 6%N])),
   (sols_val false 15 [12]%N));
  (([(Grp KOr false [(Flag false false [2%N]); (Flag false false [0%N])]); (Cond false 0%N [(Grp KAnd false [(Grp KOr false [(Flag false false [0%N]); (Flag true false [0%N]); (Flag false false [3%N])]); (Grp KOne false [(Flag true false [1%N]); (Flag false false [0%N]); (Flag false false [1%N])]); (Grp KAmo false [(Flag false false [2%N]); (Flag false false [2%N])])]); (Cond false 2%N [(Grp KOne false [(Flag false false [2%N]); (Flag false false [1%N])]); (Flag true false [2%N]); (Flag false false [1%N])]); (Flag false false [0%N])])], ([5%N], (@nil (N)), [1%N], [3%N])),
   (sols_val false 0 nil));
  (([(Grp KOr false [(Flag false false [2%N]); (Flag false false [0%N])]); (Cond false 0%N [(Grp KAnd false [(Grp KOr false [(Flag false false [0%N]); (Flag true false [0%N]); (Flag false false [3%N])]); (Grp KOne false [(Flag true false [1%N]); (Flag false false [0%N]); (Flag false false [1%N])]); (Grp KAmo false [(Flag false false [2%N]); (Flag false false [2%N])])]); (Cond false 2%N [(Grp KOne false [(Flag false false [2%N]); (Flag false false [1%N])]); (Flag true false [2%N]); (Flag false false [1%N])]); (Flag false false [0%N])])], ([1%N; 3%N], [1%N], (@nil (N)), [0%N])),
   (sols_val false 0 nil));
  (([(Grp KOr false [(Flag false false [2%N]); (Flag false false [0%N])]); (Cond false 0%N [(Grp KAnd false [(Grp KOr false [(Flag false false [0%N]); (Flag true false [0%N]); (Flag false false [3%N])]); (Grp KOne false [(Flag true false [1%N]); (Flag false false [0%N]); (Flag false false [1%N])]); (Grp KAmo false [(Flag false false [2%N]); (Flag false false [2%N])])]); (Cond false 2%N [(Grp KOne false [(Flag false false [2%N]); (Flag false false [1%N])]); (Flag true false [2%N]); (Flag false false [1%N])]); (Flag false false [0%N])])], ([0%N; 1%N; 5%N], (@nil (N)), (@nil (N)), [1%N; 3%N; 6%N])),
   (sols_val false 0 nil));
  (([(Flag true false [2%N]); (Flag false false [0%N])], ([5%N], (@nil (N)), [0%N; 2%N; 6%N], (@nil (N)))),
   (sols_val false 0 nil));
  (([(Flag true false [2%N]); (Flag false false [0%N])], ([0%N], (@nil (N)), (@nil (N)), [2%N; 5%N])),
   (sols_val false 5 [1]%N));
  (([(Flag true false [2%N]); (Flag false false [0%N])], ([2%N], (@nil (N)), (@nil (N)), [0%N; 6%N])),
   (sols_val false 0 nil));
  (([(Flag true false [2%N]); (Flag false false [0%N])], ([0%N; 2%N; 5%N], (@nil (N)), (@nil (N)), [5%N])),
   (sols_val false 37 [1; 33]%N));
  (([(Cond true 4%N [(Cond false 4%N [(Flag false false [0%N]); (Flag false false [3%N]); (Flag true false [4%N])])]); (Flag false false [1%N]); (Cond true 2%N [(Flag true false [3%N]); (Flag true false [3%N])])], ([0%N; 1%N; 2%N; 3%N; 5%N], (@nil (N)), [0%N], [1%N; 4%N])),
   (sols_val true 63 [2; 6; 14; 34; 38; 46]%N));
  (([(Cond true 4%N [(Cond false 4%N [(Flag false false [0%N]); (Flag false false [3%N]); (Flag true false [4%N])])]); (Flag false false [1%N]); (Cond true 2%N [(Flag true false [3%N]); (Flag true false [3%N])])], ([0%N; 1%N; 2%N; 3%N; 4%N], (@nil (N)), (@nil (N)), [2%N; 3%N; 5%N])),
   (sols_val false 31 [2; 3; 6; 7; 14; 15; 18; 19; 22; 23; 30; 31]%N));
  (([(Cond true 4%N [(Cond false 4%N [(Flag false false [0%N]); (Flag false false [3%N]); (Flag true false [4%N])])]); (Flag false false [1%N]); (Cond true 2%N [(Flag true false [3%N]); (Flag true false [3%N])])], ([2%N; 4%N], [0%N; 4%N], (@nil (N)), [3%N])),
   (sols_val false 0 nil));
  (([(Cond true 4%N [(Cond false 4%N [(Flag false false [0%N]); (Flag false false [3%N]); (Flag true false [4%N])])]); (Flag false false [1%N]); (Cond true 2%N [(Flag true false [3%N]); (Flag true false [3%N])])], ([0%N; 3%N; 4%N], [1%N; 6%N], [4%N], [2%N; 4%N])),
   (sols_val false 0 nil));
  (([(Cond true 4%N [(Cond false 4%N [(Flag false false [0%N]); (Flag false false [3%N]); (Flag true false [4%N])])]); (Flag false false [1%N]); (Cond true 2%N [(Flag true false [3%N]); (Flag true false [3%N])])], ([3%N; 4%N], (@nil (N)), (@nil (N)), [4%N; 5%N])),
   (sols_val false 0 nil));
  (([(Cond true 4%N [(Cond false 4%N [(Flag false false [0%N]); (Flag false false [3%N]); (Flag true false [4%N])])]); (Flag false false [1%N]); (Cond true 2%N [(Flag true false [3%N]); (Flag true false [3%N])])], ([0%N; 1%N; 5%N], (@nil (N)), (@nil (N)), [6%N])),
   (sols_val false 63 [2; 3; 34; 35]%N));
  (([(Cond true 4%N [(Cond false 4%N [(Flag false false [0%N]); (Flag false false [3%N]); (Flag true false [4%N])])]); (Flag false false [1%N]); (Cond true 2%N [(Flag true false [3%N]); (Flag true false [3%N])])], ([0%N], (@nil (N)), [1%N; 2%N; 3%N], (@nil (N)))),
   (sols_val false 0 nil));
  (([(Cond true 4%N [(Cond false 4%N [(Flag false false [0%N]); (Flag false false [3%N]); (Flag true false [4%N])])]); (Flag false false [1%N]); (Cond true 2%N [(Flag true false [3%N]); (Flag true false [3%N])])], ([1%N; 3%N; 5%N], [2%N], [6%N], [1%N; 4%N; 6%N])),
   (sols_val true 63 [2; 34]%N));
  (([(Cond true 4%N [(Cond false 4%N [(Flag false false [0%N]); (Flag false false [3%N]); (Flag true false [4%N])])]); (Flag false false [1%N]); (Cond true 2%N [(Flag true false [3%N]); (Flag true false [3%N])])], ([0%N; 2%N; 5%N], (@nil (N)), (@nil (N)), [0%N; 4%N])),
   (sols_val false 0 nil));
  (([(Cond true 4%N [(Cond false 4%N [(Flag false false [0%N]); (Flag false false [3%N]); (Flag true false [4%N])])]); (Flag false false [1%N]); (Cond true 2%N [(Flag true false [3%N]); (Flag true false [3%N])])], ([1%N; 2%N; 4%N; 5%N], [0%N; 4%N], (@nil (N)), [0%N; 3%N; 4%N])),
   (sols_val false 63 [18; 22; 50; 54]%N))
].
Eval vm_compute in (mismatches run_fcs cases).
Eval vm_compute in (where_ (fun i r => negb (spec_fcs_ok i r)) cases).
