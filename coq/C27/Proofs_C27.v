(* Proofs_C27.v — lemmas and proofs for C27; the property theorems are re-exported in Prop_C27.v. *)
From Coq Require Import List NArith ZArith Bool Arith Lia Permutation.
From Coq Require Decimal Hexadecimal DecimalN DecimalFacts DecimalPos HexadecimalN HexadecimalFacts HexadecimalPos.
From Coq Require String.
Import String.StringSyntax.
Import ListNotations.
From Verif Require Import Base.Val C18.Fs C18.FsLemmas C27.Model_C27 C27.Spec_C27.
Local Open Scope N_scope.

(* ------------------------------------------------------------------ numerals *)
Lemma str_uint_uint_str u : str_uint (uint_str u) = Some u.
Proof. induction u; cbn [uint_str str_uint]; try rewrite IHu; reflexivity. Qed.

Lemma to_uint_not_nil n : N.to_uint n <> Decimal.Nil.
Proof.
  destruct n as [|p]; cbn; [discriminate|].
  apply DecimalPos.Unsigned.to_uint_nonnil.
Qed.

Lemma uint_str_nil u : uint_str u = [] -> u = Decimal.Nil.
Proof. destruct u; cbn; intro H; try discriminate; reflexivity. Qed.

Lemma parse_num_dec_proof n : parse_num (dec n) = Some n.
Proof.
  unfold parse_num, dec.
  destruct (uint_str (N.to_uint n)) eqn:E.
  - apply uint_str_nil in E. exfalso. eapply to_uint_not_nil; eauto.
  - rewrite <- E, str_uint_uint_str. f_equal. apply DecimalN.Unsigned.of_to.
Qed.
