"""C38 — package-list rewriting touches only the lines it must (DESIGN §6 C38).

Streams (A = implementation vs Model_C38 inside Coq, B = property oracles on the implementation)
  charclass  str.isspace / re \\s / str.split / str.splitlines classes for EVERY code point
             vs Model_C38.isspace / is_lb                                              (A)
  parse      PackageList(text).entries (lineno, raw, str(pkg), keywords, comment, eol) and
             "".join(raw+eol)                       vs run_parse                        (A)
             join == text, in Python and by Spec_C38.spec_parse_ok                      (B)
  withkw     entry.with_keywords(ks) for every entry x several keyword lists
                                                    vs run_withkw                       (A)
             prefix/suffix locality + re-parse, Python + Spec_C38.spec_withkw_ok        (B)
  expand     str(PackageList(text).expand(suggest)) vs run_expand                       (A)
             frame (untouched lines identical; only the keyword region of a changed line
             differs; re-parse keeps spec/comment/eol), Python + Spec_C38.spec_expand_ok (B)
  build      PackageList.build(entries) text and its entries vs run_build               (A)
             parses back to the same atoms/keywords, Python + Spec_C38.spec_build_ok    (B)
Each stream has a structured mostly-valid part and a separate malformed part (bad specs, '#'
glued to tokens, separators inside lines, '^' without a line above, ill-formed suggestions).
"""

import re

from .common import Check, Err, Raw, cN, clist, cpair, cstr, cval, impl_call, shrink_list

IMPORTS = ("From Coq Require Import List NArith ZArith Bool.\n"
           "From Verif Require Import Base.Val C38.Model_C38 C38.Spec_C38.")
ANCHORS = ["bugzilla/pkglist.py::PackageList._parse", "bugzilla/pkglist.py::PackageList.expand",
           "bugzilla/pkglist.py::PackageList.build", "bugzilla/pkglist.py::PackageList.entries",
           "bugzilla/pkglist.py::PackageListEntry.with_keywords", "bugzilla/pkglist.py::parse_atom",
           "bugzilla/pkglist.py"]

# ---- the alphabet of the generator
WS_INLINE = [" "] * 10 + ["  ", "   ", "\t", " \t", "\t\t", "\xa0", "\u2003", "\u3000", "\x1f",
                           "\u1680", "\u2009", "\u202f", "\u205f \u2000"]
LB_EXOTIC = ["\x0b", "\x0c", "\x1c", "\x1d", "\x1e", "\x85", "\u2028", "\u2029"]
EOLS = ["\n"] * 10 + ["\r\n"] * 5 + ["\r"] * 2 + LB_EXOTIC
SPECS = ["a/a", "a/a-1.2", "=a/a-1.2", ">=a/x-1.2", "dev-python/foo:3", "=a/x-1.2.3_p1-r2", "~a/b-2", "<b/c-3-r1",
         "a/b", "a/c", "=a/b-2:0", "x11-libs/d", "a/a", "a/b", "a/c"]
BAD_SPECS = ["not-an-atom", "!a/foo", "a/foo[bar]", "a/foo::gentoo", "a/foo:*", "=a/foo-1:=", "a/a#x", "amd64", "*", "^",
             "<>a/foo-1", ":0", "[x]", "!", "<"]
KWS = ["amd64", "x86", "~arm64", "ppc", "hppa", "~amd64-linux", "arm", "~riscv", "x86", "arm", "ppc"]
SENT = ["*", "^", "-"]
ODD_KWS = ["amd64#x86", "a#", "**", "^^", "-*", "\xe9", "~x"]
COMMENTS = ["# note", "#", "#x", "# keep me  ", "# a # b", "#\ttab", "# \xe9\u3000wide", "## *", "# ^ -"]
SUG_OK = [(), ("amd64",), ("amd64", "x86"), ("~arm64", "~ppc", "hppa"), ("arm",), ("x86", "amd64")]
SUG_BAD = [("*",), ("^",), ("a b",), ("#x",), ("",), ("amd64", ""), (" amd64",), ("amd64\n",), ("-",)]
KW_LISTS_OK = [(), ("amd64",), ("amd64", "~x86"), ("arm", "hppa", "ppc"), ("-",), ("*",)]
KW_LISTS_BAD = [("#x",), ("a b",), ("",), ("amd64", "#"), ("amd64 ",), ("a\x0cb",)]


def is_ws(c):
    return c.isspace()


def wf_tok(k):
    return bool(k) and not any(ch.isspace() for ch in k) and k[0] != "#"


def gen_line(rng, malformed, first):
    """one line without its terminator; returns (text, kind)"""
    r = rng.random()
    if r < 0.10:
        return rng.choice(["", "", " ", "\t", "  \xa0"]), "blank"
    if r < 0.22:
        lead = rng.choice(["", "", " ", "  ", "\t"])
        return lead + rng.choice(COMMENTS), "comment"
    spec = rng.choice(SPECS)
    if malformed and rng.random() < 0.25:
        spec = rng.choice(BAD_SPECS)
    lead = rng.choice(["", "", "", " ", "   ", "\t", "\u3000"])
    nkw = rng.choice([0, 1, 1, 2, 2, 3])
    kws = []
    for _ in range(nkw):
        q = rng.random()
        if q < 0.45:
            k = rng.choice(SENT if not first or rng.random() < 0.3 else ["*", "-"])
        elif q < 0.92 or not malformed:
            k = rng.choice(KWS)
        else:
            k = rng.choice(ODD_KWS)
        kws.append(k)
    if malformed and first and rng.random() < 0.3:
        kws.append("^")
    s = lead + spec
    for k in kws:
        s += rng.choice(WS_INLINE) + k
    q = rng.random()
    if q < 0.25:
        s += rng.choice(WS_INLINE)
    if rng.random() < 0.3:
        glue = rng.choice(WS_INLINE)
        if malformed and rng.random() < 0.3:
            glue = ""  # '#' glued to the last token: not a comment
        s += glue + rng.choice(COMMENTS)
    if malformed and rng.random() < 0.12:
        pos = rng.randrange(len(s) + 1)
        s = s[:pos] + rng.choice(LB_EXOTIC + ["\r", "#", " #"]) + s[pos:]
    return s, "spec"


def gen_text(rng, malformed=False, maxlines=6):
    n = rng.choice([0, 1, 1, 2, 2, 3, 3, 4, maxlines])
    out = []
    seen_spec = False
    for i in range(n):
        line, kind = gen_line(rng, malformed, not seen_spec)
        if kind == "spec":
            seen_spec = True
        eol = rng.choice(EOLS)
        if i == n - 1 and rng.random() < 0.5:
            eol = ""
        out.append(line + eol)
    return "".join(out)


def atom_table(text, parse_atom):
    tbl = {}
    for tok in sorted(set(text.split())):
        try:
            tbl[tok] = str(parse_atom(tok))
        except Exception:  # noqa: BLE001 - MalformedAtom and anything else: not a spec
            pass
    return tbl


def crash_tokens(text, parse_atom):
    """tokens on which parse_atom raises something other than MalformedAtom (known class
    atom-crash-empty-package-part: nothing is left of the package part, e.g. ':0' '[x]' '!' '<')"""
    from pkgcore.ebuild.errors import MalformedAtom
    out = {}
    for tok in sorted(set(text.split())):
        try:
            parse_atom(tok)
        except MalformedAtom:
            pass
        except Exception as e:  # noqa: BLE001
            out[tok] = type(e).__name__
    return out


def atom_crash_class(example):
    """membership in the known class: the implementation died with the very exception that
    parse_atom raises (instead of MalformedAtom) on one of the tokens of the text"""
    from pkgcore.bugzilla.pkglist import parse_atom
    return example.get("error") in set(crash_tokens(example.get("text", ""), parse_atom).values())


def known_crash(chk, text, res, parse_atom):
    if isinstance(res, Err):
        ex = {"text": text, "error": res.kind, "tokens": crash_tokens(text, parse_atom)}
        if atom_crash_class(ex):
            return chk.known_finding("atom-crash-empty-package-part", ex)
    return False


def c_tbl(tbl):
    return clist([cpair(cstr(k), cstr(v)) for k, v in tbl.items()], "str * str")


def c_kws(ks):
    return clist([cstr(k) for k in ks], "str")


def c_stbl(stbl):
    return clist([cpair(cstr(k), c_kws(v)) for k, v in stbl.items()], "str * list str")


def enc_entry(e):
    return [e.lineno, e.raw, None if e.pkg is None else str(e.pkg), list(e.keywords), e.comment, e.eol]


def enc_withkw(e, ks):
    n = e.with_keywords(ks)
    want_kws = tuple(ks) if e.pkg is not None else e.keywords
    return [n.raw, bool((n.lineno, n.pkg, n.comment, n.eol) == (e.lineno, e.pkg, e.comment, e.eol)
                        and tuple(n.keywords) == want_kws and type(n.keywords) is tuple)]


def guarded(f):
    """PackageListError -> ["E", kind, lineno, line]; anything else -> Err(class name)."""
    from pkgcore.bugzilla.errors import PackageListError
    try:
        return f()
    except PackageListError as e:
        m = e.message
        kind = 1 if "no line above" in m else 2 if "copies an empty line" in m else 0
        return ["E", kind, e.lineno, e.line]
    except Exception as e:  # noqa: BLE001
        return Err(type(e).__name__)


def is_fail(res):
    return isinstance(res, Err) or (isinstance(res, list) and len(res) == 4 and res[0] == "E")


# ---- property oracles on the implementation (B), independent of the model ------------------
_CMT = re.compile(r"(?:^|\s)#")


def region(raw):
    """(prefix up to the end of the first token incl. the whitespace run after it when keywords
    follow, keyword region, suffix = trailing whitespace + comment) of a spec line."""
    m = _CMT.search(raw)
    cut = len(raw) if m is None else m.end() - 1
    body, cmt = raw[:cut], raw[cut:]
    toks = list(re.finditer(r"\S+", body))
    if not toks:
        return None
    if len(toks) == 1:
        return body[:toks[0].end()], "", body[toks[0].end():] + cmt
    return body[:toks[1].start()], body[toks[1].start():toks[-1].end()], body[toks[-1].end():] + cmt


def oracle_parse(PackageList, text):
    es = PackageList(text).entries
    joined = "".join(e.raw + e.eol for e in es)
    if joined != text:
        return {"what": "rendering the parsed entries does not reproduce the text", "text": text, "rendered": joined}
    if str(PackageList(text)) != text:
        return {"what": "str(PackageList(text)) != text", "text": text}
    return None


def oracle_withkw(PackageList, text, ks):
    """ks well-formed; every entry: locality + re-parse"""
    for e in PackageList(text).entries:
        n = e.with_keywords(ks)
        if e.pkg is None:
            if n != e:
                return {"what": "with_keywords changed a line without a spec", "text": text, "line": e.raw}
            continue
        pfx, mid, sfx = region(e.raw)
        glue = " " if (not e.keywords and ks) else ""
        want = pfx + glue + " ".join(ks) + sfx
        if n.raw != want:
            return {"what": "with_keywords result is not prefix + keywords + suffix of the original line",
                    "text": text, "line": e.raw, "keywords": list(ks), "got": n.raw, "want": want}
        if (n.lineno, n.pkg, n.comment, n.eol, n.keywords) != (e.lineno, e.pkg, e.comment, e.eol, tuple(ks)):
            return {"what": "with_keywords changed a field other than raw/keywords", "text": text, "line": e.raw}
        back = guarded(lambda: PackageList(n.raw + n.eol).entries)
        if is_fail(back) or len(back) != 1 or (
                back[0].raw, back[0].pkg, back[0].keywords, back[0].comment, back[0].eol) != (
                n.raw, e.pkg, tuple(ks), e.comment, e.eol):
            return {"what": "re-parsing a with_keywords line does not give the same spec/comment/eol and the new keywords",
                    "text": text, "line": e.raw, "keywords": list(ks), "got": n.raw}
    return None


def oracle_expand(PackageList, text, suggest, sugg_wf):
    """frame property of expand on the implementation"""
    pl = PackageList(text)
    out = pl.expand(suggest)
    new = str(out)
    old_es = pl.entries
    lines = text.splitlines(keepends=True)
    if not sugg_wf:
        return None
    new_es = guarded(lambda: PackageList(new).entries)
    if is_fail(new_es):
        return {"what": "expanded text no longer parses", "text": text, "expanded": new}
    if len(new_es) != len(old_es):
        return {"what": "expand changed the number of lines", "text": text, "expanded": new}
    prev = None
    for l, a, b in zip(lines, old_es, new_es):
        if a.pkg is None or not any(k in ("*", "^") for k in a.keywords):
            if b.raw + b.eol != l:
                return {"what": "expand changed a line without sentinels", "text": text, "line": l,
                        "expanded_line": b.raw + b.eol}
            if a.pkg is not None:
                prev = a.keywords
            continue
        want = []
        for k in a.keywords:
            want.extend((tuple(suggest(a.pkg)) or ("-",)) if k == "*" else prev if k == "^" else (k,))
        prev = tuple(want)
        if prev == a.keywords:  # e.g. suggest() answers "*": keywords unchanged, the line must be too
            if b.raw + b.eol != l:
                return {"what": "expand changed a line whose keywords do not change", "text": text, "line": l,
                        "expanded_line": b.raw + b.eol}
            continue
        pfx, _mid, sfx = region(a.raw)
        if b.raw != pfx + " ".join(want) + sfx:
            return {"what": "a line rewritten by expand is not its own prefix + expanded keywords + suffix",
                    "text": text, "line": a.raw, "expanded_line": b.raw, "want": pfx + " ".join(want) + sfx}
        if (b.pkg, b.comment, b.eol, b.keywords, b.lineno) != (a.pkg, a.comment, a.eol, prev, a.lineno):
            return {"what": "expand did not preserve spec/comment/line ending of a rewritten line (after re-parse)",
                    "text": text, "line": a.raw, "expanded_line": b.raw}
    return None


def oracle_build(PackageList, parse_atom, atom, ents):
    pl = PackageList.build((atom(s), ks) for s, ks in ents)
    es = pl.entries
    got = [(e.pkg, e.keywords) for e in es if e.pkg is not None]
    want = [(atom(s), tuple(ks)) for s, ks in ents]
    if got != want or len(es) != len(ents) or any(e.comment for e in es):
        return {"what": "build(entries) does not parse back to those entries", "entries": ents, "text": str(pl)}
    return None


def main(chk: Check):
    from pkgcore.bugzilla.pkglist import PackageList, parse_atom
    from pkgcore.ebuild.atom import atom

    rng = chk.rng
    chk.rule("random package lists of 0-7 lines: spec lines (12 valid specs; leading/inner/trailing "
             "whitespace from ASCII, tab and 9 unicode spaces; 0-3 keywords of which ~45% sentinels * ^ -; "
             "comments glued or spaced), comment lines, blank lines; terminators \\n \\r\\n \\r and the 8 "
             "exotic separators, last line optionally unterminated; malformed part: bad specs, '#' glued to "
             "tokens, separators/#'s injected inside lines, '^' on the first spec line, ill-formed "
             "suggestions/keywords.  Non-trivial (expand) = the text has a line with a sentinel that is "
             "rewritten AND at least one other line; (parse/withkw) = a spec line with a comment or "
             "irregular spacing or a non-\\n terminator")
    ok = chk.build(["C38/Prop_C38.vo"])
    if ok:
        chk.check_assumptions("C38/Prop_C38.v")
    chk.lint(["C38"])
    chk.check_fingerprint(ANCHORS)

    prop_bad = []   # concrete property failures found by the Python oracles
    streams = []

    def run_oracle(f, *a):
        r = guarded(lambda: f(*a))
        if isinstance(r, Err):
            return {"what": f"oracle raised {r.kind}", "args": [repr(x)[:300] for x in a[1:]]}
        if is_fail(r):
            return None
        return r

    # ---- charclass: every code point
    ws = [c for c in range(0x110000) if chr(c).isspace()]
    ws_re = [c for c in range(0x110000) if re.match(r"\s", chr(c))]
    ws_split = [c for c in range(0x110000) if len(("a" + chr(c) + "b").split()) == 2]
    lb = [c for c in range(0x110000) if len(("a" + chr(c) + "b").splitlines()) == 2]
    if not (ws == ws_re == ws_split):
        chk.violation("table", {"what": "str.isspace, re \\s and str.split() disagree on the whitespace class"}, True)
    if max(ws + lb) >= 0x3100:
        chk.violation("table", {"what": "Python has a whitespace/line-break character at or above U+3100, "
                                        "outside the model's classes", "char": max(ws + lb)}, True)
    streams.append(("charclass", "unit", [("tt", [ws, lb])], ["mismatches run_charclass cases"], None))
    chk.count("charclass", 12544)  # code points evaluated inside Coq; Python side: all 0x110000

    # ---- corpus
    corpus = []
    from .common import VERIF
    import json
    for p in sorted((VERIF / "corpus" / "C38").glob("*.json")):
        try:
            corpus.append(json.loads(p.read_text()))
        except Exception:  # noqa: BLE001
            chk.note(f"unreadable corpus file {p.name}")

    # ---- parse stream
    texts = [c["text"] for c in corpus if "text" in c]
    n_valid, n_mal = chk.n(220, 1300), chk.n(80, 500)
    texts += [gen_text(rng) for _ in range(n_valid)] + [gen_text(rng, True) for _ in range(n_mal)]
    parse_cases = []
    for t in texts:
        tbl = atom_table(t, parse_atom)
        res = guarded(lambda: [enc_entry(e) for e in PackageList(t).entries])
        if known_crash(chk, t, res, parse_atom):
            parse_cases.append(None)
            continue
        parse_cases.append((cpair(c_tbl(tbl), cstr(t)), res))
        if not is_fail(res):
            b = run_oracle(oracle_parse, PackageList, t)
            if b:
                prop_bad.append(("parse", b))
            for e in res:
                if e[2] is not None and (e[4] or e[5] not in ("\n", "") or re.search(r"\s\s|\t|^\s", e[1])):
                    chk.nontrivial(("p", t))
                    break
    texts = [t for t, c in zip(texts, parse_cases) if c is not None]
    parse_cases = [c for c in parse_cases if c is not None]
    chk.count("parse", len(parse_cases))
    streams.append(("parse", "list (str * str) * str", parse_cases,
                    ["mismatches run_parse cases", "where_ (fun i r => negb (spec_parse_ok i r)) cases"], texts))
    for i in (0, len(texts) // 2):
        chk.sample({"stream": "parse", "text": texts[i], "impl": parse_cases[i][1]})

    # ---- withkw stream
    wk_cases, wk_inputs = [], []
    for j in range(chk.n(120, 700)):
        mal = j % 5 == 4
        t = gen_text(rng, mal, maxlines=4)
        kss = [rng.choice(KW_LISTS_OK), rng.choice(KW_LISTS_OK), ()]
        if mal:
            kss.append(rng.choice(KW_LISTS_BAD))
        tbl = atom_table(t, parse_atom)
        res = guarded(lambda: [[enc_entry(e), [enc_withkw(e, ks) for ks in kss]]
                               for e in PackageList(t).entries])
        if known_crash(chk, t, res, parse_atom):
            continue
        wk_cases.append((cpair(c_tbl(tbl), cstr(t), clist([c_kws(ks) for ks in kss], "list str")), res))
        wk_inputs.append((t, kss))
        if not is_fail(res):
            for ks in kss:
                if all(wf_tok(k) for k in ks):
                    b = run_oracle(oracle_withkw, PackageList, t, ks)
                    if b:
                        prop_bad.append(("withkw", b))
            if any(e[0][2] is not None and (e[0][4] or re.search(r"\s\s|\t|^\s|\s$", e[0][1])) for e in res):
                chk.nontrivial(("w", t, tuple(kss)))
    chk.count("withkw", len(wk_cases))
    streams.append(("withkw", "list (str * str) * str * list (list str)", wk_cases,
                    ["mismatches run_withkw cases", "where_ (fun i r => negb (spec_withkw_ok i r)) cases"], wk_inputs))
    chk.sample({"stream": "withkw", "text": wk_inputs[1][0], "kss": wk_inputs[1][1], "impl": wk_cases[1][1]})

    # ---- expand stream
    ex_cases, ex_inputs = [], []
    hist = {"rewritten": 0, "unchanged": 0, "err_no_line_above": 0, "err_copies_empty": 0, "err_spec": 0}
    extra = [(c["text"], c.get("suggest", {}), tuple(c.get("default", ()))) for c in corpus if "suggest" in c]
    for j in range(chk.n(360, 2200) + len(extra)):
        if j < len(extra):
            t, stbl, dflt = extra[j]
            stbl = {k: tuple(v) for k, v in stbl.items()}
            mal = True
        else:
            mal = j % 5 == 4
            t = gen_text(rng, mal and rng.random() < 0.5)
            dflt = rng.choice(SUG_OK)
            stbl = {}
            tbl0 = atom_table(t, parse_atom)
            for v in sorted(set(tbl0.values())):
                if rng.random() < 0.6:
                    stbl[v] = rng.choice(SUG_BAD) if (mal and rng.random() < 0.4) else rng.choice(SUG_OK)
        tbl = atom_table(t, parse_atom)

        def suggest(pkg, stbl=stbl, dflt=dflt):
            return stbl.get(str(pkg), dflt)
        res = guarded(lambda: str(PackageList(t).expand(suggest)))
        if known_crash(chk, t, res, parse_atom):
            continue
        ex_cases.append((cpair(c_tbl(tbl), cstr(t), c_stbl(stbl), c_kws(dflt)), res))
        ex_inputs.append((t, stbl, dflt))
        wf = all(wf_tok(k) for v in list(stbl.values()) + [dflt] for k in v)
        if is_fail(res):
            if not isinstance(res, Err):
                hist[["err_spec", "err_no_line_above", "err_copies_empty"][res[1]]] += 1
        else:
            hist["rewritten" if res != t else "unchanged"] += 1
            if res != t and len(t.splitlines()) > 1:
                chk.nontrivial(("e", t, tuple(sorted(stbl.items())), dflt))
            b = run_oracle(oracle_expand, PackageList, t, suggest, wf)
            if b:
                prop_bad.append(("expand", dict(b, suggest=stbl, default=list(dflt))))
    chk.count("expand", len(ex_cases))
    chk.cov["expand_outcomes"] = hist
    streams.append(("expand", "list (str * str) * str * list (str * list str) * list str", ex_cases,
                    ["mismatches run_expand cases", "where_ (fun i r => negb (spec_expand_ok i r)) cases"], ex_inputs))
    for i in (0, 3):
        chk.sample({"stream": "expand", "text": ex_inputs[i][0], "suggest": ex_inputs[i][1],
                    "default": ex_inputs[i][2], "impl": ex_cases[i][1]})

    # ---- build stream
    b_cases, b_inputs = [], []
    canon = sorted({str(parse_atom(s)) for s in SPECS})
    for s in canon:  # the pool is closed under str(): parse_atom(str(a)) == a
        a = parse_atom(s)
        if str(a) != s or parse_atom(str(a)) != a:
            chk.violation("table", {"what": "parse_atom(str(a)) != a for a pool atom", "atom": s}, True)
    for j in range(chk.n(100, 600)):
        mal = j % 6 == 5
        ents = []
        for _ in range(rng.choice([0, 1, 2, 2, 3, 4])):
            ks = tuple(rng.choice(KWS + SENT) for _ in range(rng.choice([0, 1, 2, 3])))
            if mal and rng.random() < 0.5:
                ks = ks + rng.choice(KW_LISTS_BAD + [("", ""), (" ",)])
            ents.append((rng.choice(canon), ks))
        text = guarded(lambda: str(PackageList.build((atom(s), ks) for s, ks in ents)))
        tbl = atom_table(text, parse_atom) if isinstance(text, str) else {}
        for s, _ in ents:
            tbl.setdefault(s, s)
        back = guarded(lambda: [enc_entry(e) for e in PackageList(text).entries])
        b_cases.append((cpair(c_tbl(tbl), clist([cpair(cstr(s), c_kws(ks)) for s, ks in ents], "str * list str")),
                        [text, back]))
        b_inputs.append(ents)
        if all(wf_tok(k) for _, ks in ents for k in ks):
            b = run_oracle(oracle_build, PackageList, parse_atom, atom, ents)
            if b:
                prop_bad.append(("build", b))
            if len(ents) > 1:
                chk.nontrivial(("b", tuple(ents)))
    chk.count("build", len(b_cases))
    streams.append(("build", "list (str * str) * list (str * list str)", b_cases,
                    ["mismatches run_build cases", "where_ (fun i r => negb (spec_build_ok i r)) cases"], b_inputs))
    chk.sample({"stream": "build", "entries": b_inputs[2], "impl": b_cases[2][1]})

    # ---- evaluate model and spec inside Coq (all streams concurrently)
    corr_bad, spec_bad = [], []
    import concurrent.futures as cf

    def ev(st):
        name, ty, cases, evals, inputs = st
        return chk.coq_eval(name, IMPORTS, ty, cases, evals, shard=100)
    results = []
    if ok:
        with cf.ThreadPoolExecutor(max_workers=len(streams)) as ex:
            results = list(ex.map(ev, streams))
    for (name, ty, cases, evals, inputs), r in zip(streams, results):
        if r is None:
            continue
        for i in r[0][:3]:
            corr_bad.append((name, inputs[i] if inputs else None, cases[i][1]))
        if len(r) > 1:
            for i in r[1][:3]:
                spec_bad.append((name, inputs[i], cases[i][1]))

    # ---- report
    seen = set()
    for name, b in prop_bad:
        key = (name, b.get("what"), b.get("text", repr(b.get("entries"))))
        if key in seen or len(seen) >= 4:
            continue
        seen.add(key)
        if "text" in b:
            b = dict(b, shrunk_text=shrink_case(PackageList, name, b))
        chk.violation("property", {"what": b["what"], "stream": name, "input": b})
    if not prop_bad:
        for name, inp, res in spec_bad[:3]:
            chk.violation("property", {"what": f"Spec_C38.spec_{name}_ok rejects the implementation's result",
                                       "stream": name, "input": inp, "implementation": res})
    for name, inp, res in corr_bad[:3]:
        chk.violation("correspondence",
                      {"what": f"implementation and Model_C38 disagree on stream '{name}' "
                               "(theorems of Prop_C38 no longer speak about this code)",
                       "input": inp, "implementation": res},
                      no_input=not (prop_bad or spec_bad))


def shrink_case(PackageList, name, b):
    """drop lines of the failing text while the same Python oracle still fails"""
    lines = b["text"].splitlines(keepends=True)
    if name == "parse":
        def orc(t):
            return oracle_parse(PackageList, t)
    elif name == "withkw" and "keywords" in b:
        def orc(t):
            return oracle_withkw(PackageList, t, tuple(b["keywords"]))
    elif name == "expand" and "suggest" in b:
        stbl, dflt = {k: tuple(v) for k, v in b["suggest"].items()}, tuple(b["default"])

        def orc(t):
            return oracle_expand(PackageList, t, lambda pkg: stbl.get(str(pkg), dflt), True)
    else:
        return None

    def fails(ls):
        r = guarded(lambda: orc("".join(ls)))
        return bool(r) and not is_fail(r)
    try:
        return "".join(shrink_list(lines, fails, 1)) if fails(lines) else None
    except Exception:  # noqa: BLE001
        return None


def replay(chk, data):
    """re-run one recorded case: implementation result, does Model_C38 agree, does Spec_C38 accept"""
    from pkgcore.bugzilla.pkglist import PackageList, parse_atom
    inp = data.get("detail", {}).get("input")
    if isinstance(inp, dict) and "text" in inp:
        text, stbl, dflt = inp["text"], inp.get("suggest"), inp.get("default")
    elif isinstance(inp, list) and inp and isinstance(inp[0], str):
        text = inp[0]
        stbl = inp[1] if len(inp) > 2 and isinstance(inp[1], dict) else None
        dflt = inp[2] if stbl is not None else None
    elif isinstance(inp, str):
        text, stbl, dflt = inp, None, None
    else:
        print("no text recorded in this replay file")
        return
    tbl = atom_table(text, parse_atom)
    res = guarded(lambda: [enc_entry(e) for e in PackageList(text).entries])
    print("implementation parse:", res)
    r = chk.coq_eval("replay_parse", IMPORTS, "list (str * str) * str", [(cpair(c_tbl(tbl), cstr(text)), res)],
                     ["mismatches run_parse cases", "where_ (fun i r => negb (spec_parse_ok i r)) cases"])
    if r is not None:
        print("model agrees:", not r[0], " spec accepts:", not r[1])
    if stbl is not None:
        stbl = {k: tuple(v) for k, v in stbl.items()}
        dflt = tuple(dflt or ())
        res = guarded(lambda: str(PackageList(text).expand(lambda pkg: stbl.get(str(pkg), dflt))))
        print("implementation expand:", res)
        r = chk.coq_eval("replay_expand", IMPORTS, "list (str * str) * str * list (str * list str) * list str",
                         [(cpair(c_tbl(tbl), cstr(text), c_stbl(stbl), c_kws(dflt)), res)],
                         ["mismatches run_expand cases", "where_ (fun i r => negb (spec_expand_ok i r)) cases"])
        if r is not None:
            print("model agrees:", not r[0], " spec accepts:", not r[1])
