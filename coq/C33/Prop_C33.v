(* Prop_C33.v — the property theorems of C33 and nothing else. *)
From Coq Require Import List NArith ZArith Bool.
From Coq Require String.
Import String.StringSyntax.
Delimit Scope string_scope with string.
Import ListNotations.
From Verif Require Import Base.Val C33.Path C33.PathProofs gen.Tables_C33 C33.Model_C33 C33.Spec_C33 C33.Proofs_C33.

(* dosym -r: for EVERY absolute target t and EVERY link name l (the initial slash of l may be
   omitted), the relative link content, resolved lexically from the directory the link lives in,
   is the requested target *)
Theorem dosym_r_resolves : forall cwd t l, isabs t = true ->
  resolve (join2 (absdir l) (relative_target cwd t l)) = resolve t.
Proof. exact dosym_r_resolves_proof. Qed.
Print Assumptions dosym_r_resolves.

(* the same in the form of DESIGN §6: both absolute, the directory is dirname l *)
Theorem dosym_r_resolves_abs : forall cwd t l, isabs t = true -> isabs l = true ->
  resolve (join2 (dirname l) (relative_target cwd t l)) = resolve t.
Proof. exact dosym_r_resolves_abs_proof. Qed.
Print Assumptions dosym_r_resolves_abs.

(* in terms of Python's normpath: equal whenever target and link directory agree on the POSIX
   "exactly two leading slashes" special case; false in general (refuted below) *)
Theorem dosym_r_normpath_partial : forall cwd t l, isabs t = true ->
  lead_slashes (absdir l) = lead_slashes t ->
  normpath (join2 (absdir l) (relative_target cwd t l)) = normpath t.
Proof. exact dosym_r_normpath_partial_proof. Qed.
Print Assumptions dosym_r_normpath_partial.

Theorem dosym_r_normpath_refuted : ~ dosym_r_normpath_statement.
Proof. exact dosym_r_normpath_refuted_proof. Qed.
Print Assumptions dosym_r_normpath_refuted.

(* ---- placement against the PMS reference (Spec_C33), per helper ---- *)

(* the regenerated EAPI gate table and banned-wrapper table are the PMS tables:
   dodoc -r from 4, doman language directories from 2, -i18n precedence from 4, dosym -r from 8;
   dohard banned from 4, dohtml and dolib from 7 — for EAPIs 0..8 *)
Theorem gates_are_pms : forallb gates_agree numbered_eapis = true.
Proof. exact gates_are_pms_proof. Qed.
Print Assumptions gates_are_pms.

(* the directory each wrapper passes as --dest (and the forced modes of dolib.so/.a) *)
Theorem wrapper_dests_are_pms : forall g v,
  dest_of g "dobin" v = Some (v_desttree v ++ lit "/bin")
  /\ dest_of g "dosbin" v = Some (v_desttree v ++ lit "/sbin")
  /\ dest_of g "dolib" v = Some (v_desttree v ++ lit "/" ++ v_libdir v)
  /\ dest_of g "dolib.so" v = Some (v_desttree v ++ lit "/" ++ v_libdir v)
  /\ dest_of g "dolib.a" v = Some (v_desttree v ++ lit "/" ++ v_libdir v)
  /\ dest_of g "doins" v = Some (v_insdesttree v)
  /\ dest_of g "doexe" v = Some (v_exedesttree v)
  /\ dest_of g "dodoc" v = Some (lit "/usr/share/doc/" ++ v_pf v ++ lit "/" ++ v_docdesttree v)
  /\ dest_of g "dohtml" v = Some (lit "/usr/share/doc/" ++ v_pf v ++ lit "/"
                                  ++ match v_docdesttree v with [] => lit "html" | d => d end)
  /\ dest_of g "doinfo" v = Some (lit "/usr/share/info")
  /\ dest_of g "doman" v = Some (lit "/usr/share/man")
  /\ insopts_of g "dolib.so" v = Some (lit "-m0755")
  /\ insopts_of g "dolib.a" v = Some (lit "-m0644")
  /\ insopts_of g "doins" v = Some (v_insoptions v)
  /\ insopts_of g "doexe" v = Some (v_exeoptions v).
Proof. exact wrapper_dests_are_pms_proof. Qed.
Print Assumptions wrapper_dests_are_pms.

(* doexe dobin dosbin dolib* doinfo, and the file arguments of doins/dodoc: every file is
   installed at <dest>/<basename> with the requested mode (symlinks as symlinks) — the list of
   installed entries IS the reference list, for every argument list *)
Theorem placement_is_pms_files : forall c mode pos l,
  c_insmode c = Some mode ->
  flat_files (comps (c_dest c)) mode pos = Some l ->
  plan_base c pos = inl (base_action (c_dest c) :: install_basenames c pos)
  /\ map action_entry (install_basenames c pos) = map Some l.
Proof. exact placement_is_pms_files_proof. Qed.
Print Assumptions placement_is_pms_files.

(* doman: section directory from the suffix, language directory in EAPI 2+, -i18n= precedence in
   EAPI 4+, language suffix stripped — wherever PMS defines the placement *)
Theorem placement_is_pms_doman : forall e g i18n b d name,
  gates_of e = Some g -> gates_match g (decimal e) ->
  pms_doman (decimal e) i18n b = Some (Some (d, name)) ->
  doman_dest g i18n b = Some (join_sl d, name).
Proof. exact doman_placement_is_pms_proof. Qed.
Print Assumptions placement_is_pms_doman.

(* a man page without a section suffix is refused *)
Theorem doman_rejects_no_section : forall e g i18n x,
  gates_of e = Some g -> nodot (basename x) -> noslash (basename x) -> doman_dest g i18n x = None.
Proof. exact doman_rejects_no_section_proof. Qed.
Print Assumptions doman_rejects_no_section.

(* keepdir: the directory as for dodir, and .keep_CAT_PN-SLOT inside it *)
Theorem placement_is_pms_keepdir : forall i dest dirm pos acts,
  goodb (keep_name i) -> plan_dirs (Some (keep_name i)) dest dirm pos = inl acts ->
  keep_name i = lit ".keep_" ++ cat i ++ lit "_" ++ pn i ++ lit "-" ++ slot i
  /\ forall a, In a pos ->
       In (AMkdirs (under dest (fst a)) dirm) acts
       /\ exists p, In (ATouch p) acts /\ key p = comps (fst a) ++ [keep_name i].
Proof. exact placement_is_pms_keepdir_proof. Qed.
Print Assumptions placement_is_pms_keepdir.

(* dosym: trailing-slash / existing-directory link names are refused; -r is gated and needs an
   absolute target; the created link is verbatim, or with -r resolves to the requested target *)
Theorem placement_is_pms_dosym : forall g dirm pre r s t,
  (endswith_sl t = true -> plan_dosym g dirm pre r s t = inr (E "nolinkname"))
  /\ (forall m, lookup (key (lstrip_sl t)) pre = Some (NDir m) -> plan_dosym g dirm pre r s t = inr (E "nolinkname"))
  /\ (forall acts, plan_dosym g dirm pre r s t = inl acts ->
        (r = true -> g_dosym_rel g = true /\ isabs s = true)
        /\ exists c, In (ASymlink c (lstrip_sl t)) acts
                     /\ (r = false -> c = s)
                     /\ (r = true -> resolve (join2 (absdir t) c) = resolve s)).
Proof. exact placement_is_pms_dosym_proof. Qed.
Print Assumptions placement_is_pms_dosym.

(* rejections: a missing link name (dosym, dohard), a directory given to dodoc without an
   allowed -r, a directory given to dohtml without -r, dodir/keepdir without arguments *)
Theorem rejections_are_pms :
  (forall g h dirm pre r pos, (length pos < 2)%nat -> plan_link g h dirm pre r pos = inr (E "missing"))
  /\ (forall g c r pos, dirs_of pos <> [] -> r && g_dodoc_r g = false -> plan_dodoc g c r pos = inr (E "isdir"))
  /\ (forall dest insm dirm o pos, dirs_of pos <> [] -> h_r o = false -> plan_dohtml dest insm dirm o pos = inr (E "isdir"))
  /\ (forall keep dest dirm, plan_dirs keep dest dirm [] = inr (E "missing")).
Proof. exact rejections_are_pms_proof. Qed.
Print Assumptions rejections_are_pms.
