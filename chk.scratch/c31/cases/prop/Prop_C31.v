(* Prop_C31.v — the property theorems of C31 and nothing else. *)
From Coq Require Import List NArith ZArith Bool.
Import ListNotations.
From Verif Require Import Base.Val C31.Model_C31 C31.Spec_C31 C31.Proofs_C31.

(* inline transfer: the reader consumes exactly the bytes written for the payload; what the
   Python side writes next (rest) is what the daemon reads next *)
Theorem framing_in_sync : forall data rest,
  reader (frame data ++ rest) = Some (encode data, rest).
Proof. exact framing_in_sync_proof. Qed.
Print Assumptions framing_in_sync.

Theorem framing_file_in_sync : forall path rest,
  ascii_line path -> reader_file (frame_file path ++ rest) = Some (path, rest).
Proof. exact framing_file_in_sync_proof. Qed.
Print Assumptions framing_file_in_sync.

(* the character count sent before the repair does not have this property *)
Theorem framing_charcount_refuted :
  exists data rest, reader (frame_old data ++ rest) <> Some (encode data, rest).
Proof. exact framing_charcount_refuted_proof. Qed.
Print Assumptions framing_charcount_refuted.
