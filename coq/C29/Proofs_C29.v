(* C29/Proofs_C29.v — crash consistency of the repository updates of Model_C29.

   Plan.  [visible] paths are the only ones a view reads.  An op that names only invisible paths
   ("outside") leaves every visible lookup unchanged, provided no file has a second name
   ([nolinks], preserved by every op but Link).  An update whose op list is
   pre ++ mid ++ post with pre and post outside is therefore old-or-new at every crash point
   k <= |pre| and k >= |pre|+|mid| ([window]).  With |mid| = 1 (one rename / unlink) that is every
   crash point. *)
From Coq Require Import List NArith ZArith Bool Lia.
Import ListNotations.
From Verif Require Import Base.Val C18.Fs C18.FsLemmas C29.Model_C29 C29.Spec_C29.

(* ------------------------------------------------------------------ membership algebra *)
Lemma In_set_node s p n r x : In (r, x) (set_node s p n) -> (r, x) = (p, n) \/ In (r, x) s.
Proof.
  induction s as [|[q m] s IH]; cbn.
  - intros [H|[]]; auto.
  - destruct (path_eq_dec p q) as [->|].
    + intros [H|H]; auto.
    + intros [H|H]; auto. destruct (IH H); auto.
Qed.
Lemma In_remove s p r x : In (r, x) (remove s p) -> In (r, x) s /\ r <> p.
Proof.
  induction s as [|[q m] s IH]; cbn; [tauto|].
  destruct (path_eq_dec p q) as [->|Hn].
  - intro H. destruct (IH H). auto.
  - intros [H|H].
    + injection H as -> ->. split; auto.
    + destruct (IH H). auto.
Qed.
Lemma In_on_ino i f s r x :
  In (r, x) (on_ino i f s) -> exists x0, In (r, x0) s /\ (x = x0 \/ x = f x0).
Proof.
  unfold on_ino, map_nodes. rewrite in_map_iff. intros [[r0 x0] [E H]]. cbn in E.
  injection E as <- <-. exists x0. split; [exact H|].
  destruct (ino_of x0); auto. destruct (N.eqb n i); auto.
Qed.
Lemma In_rename_dir s a b r x :
  In (r, x) (rename_dir s a b) -> exists r0, In (r0, x) s /\ r = rebase a b r0.
Proof.
  unfold rename_dir. rewrite in_map_iff. intros [[r0 x0] [E H]]. cbn in E.
  injection E as <- <-. exists r0. apply In_remove in H. tauto.
Qed.
Lemma fresh_ino_gt_In s q m i : In (q, m) s -> ino_of m = Some i -> (i < fresh_ino s)%N.
Proof.
  unfold fresh_ino. induction s as [|[r x] s IH]; cbn; [tauto|].
  intros [H|H] Hi.
  - injection H as -> ->. rewrite Hi. lia.
  - specialize (IH H Hi). destruct (ino_of x); lia.
Qed.

Definition keeps_ino (f : node -> node) : Prop := forall n, ino_of (f n) = ino_of n.
Lemma ki_append d : keeps_ino (append_data d). Proof. intros []; reflexivity. Qed.
Lemma ki_pwrite o d : keeps_ino (pwrite_data o d). Proof. intros []; reflexivity. Qed.
Lemma ki_trunc : keeps_ino truncate_data. Proof. intros []; reflexivity. Qed.
Lemma ki_mode m : keeps_ino (set_mode m). Proof. intros []; reflexivity. Qed.
Lemma ki_owner a b : keeps_ino (set_owner a b). Proof. intros []; reflexivity. Qed.
Lemma ki_mtime t : keeps_ino (set_mtime t). Proof. intros []; reflexivity. Qed.

Lemma nolinks_new s p n : ino_of n = None -> nolinks s -> nolinks (set_node s p n).
Proof.
  intros Hn H p1 p2 n1 n2 i H1 H2 I1 I2.
  apply In_set_node in H1. apply In_set_node in H2.
  destruct H1 as [H1|H1], H2 as [H2|H2]; try (injection H1 as -> ->); try (injection H2 as -> ->);
    try congruence. eapply H; eauto.
Qed.
Lemma nolinks_remove s p : nolinks s -> nolinks (remove s p).
Proof.
  intros H p1 p2 n1 n2 i H1 H2. apply In_remove in H1. apply In_remove in H2. eapply H; tauto.
Qed.
Lemma nolinks_update s p f s' : keeps_ino f -> update s p f = Some s' -> nolinks s -> nolinks s'.
Proof.
  intros Hf. unfold update. destruct (lookup s p) as [n|] eqn:Hp; [|discriminate].
  destruct (ino_of n) as [i|] eqn:Hi; intros E H; injection E as <-.
  - intros p1 p2 n1 n2 j H1 H2 I1 I2.
    apply In_on_ino in H1 as [x1 [H1 E1]]. apply In_on_ino in H2 as [x2 [H2 E2]].
    assert (ino_of n1 = ino_of x1) by (destruct E1; subst; [reflexivity|apply Hf]).
    assert (ino_of n2 = ino_of x2) by (destruct E2; subst; [reflexivity|apply Hf]).
    apply (H p1 p2 x1 x2 j); auto; congruence.
  - apply nolinks_new; [rewrite Hf; exact Hi|exact H].
Qed.
Lemma nolinks_move s a b n : In (a, n) s -> nolinks s -> nolinks (set_node (remove s a) b n).
Proof.
  intros Ha H p1 p2 n1 n2 i H1 H2 I1 I2.
  apply In_set_node in H1. apply In_set_node in H2.
  destruct H1 as [H1|H1], H2 as [H2|H2]; try (injection H1 as -> ->); try (injection H2 as -> ->);
    try reflexivity.
  - apply In_remove in H2 as [H2 Hne]. exfalso. apply Hne. symmetry. eapply H; eauto.
  - apply In_remove in H1 as [H1 Hne]. exfalso. apply Hne. symmetry. eapply H; eauto.
  - apply In_remove in H1 as [H1 _]. apply In_remove in H2 as [H2 _]. eapply H; eauto.
Qed.

Definition plain (o : op) : Prop := match o with Link _ _ => False | _ => True end.

Lemma nolinks_step s o s' : plain o -> nolinks s -> apply_op s o = Some s' -> nolinks s'.
Proof.
  destruct o; cbn [apply_op plain]; intros Hp H E; try contradiction.
  - destruct (can_create s p); [|discriminate]. injection E as <-. now apply nolinks_new.
  - destruct (can_create s p); [|discriminate]. injection E as <-.
    intros p1 p2 n1 n2 i H1 H2 I1 I2. apply In_set_node in H1. apply In_set_node in H2.
    destruct H1 as [H1|H1], H2 as [H2|H2]; try (injection H1 as -> ->); try (injection H2 as -> ->);
      try reflexivity.
    + cbn in I1. injection I1 as <-. pose proof (fresh_ino_gt_In _ _ _ _ H2 I2). lia.
    + cbn in I2. injection I2 as <-. pose proof (fresh_ino_gt_In _ _ _ _ H1 I1). lia.
    + eapply H; eauto.
  - destruct (lookup s p) as [[]|]; try discriminate. eapply nolinks_update; eauto using ki_append.
  - destruct (lookup s p) as [[]|]; try discriminate.
    destruct (Nat.leb off (length data)); [|discriminate]. eapply nolinks_update; eauto using ki_pwrite.
  - destruct (lookup s p) as [[]|]; try discriminate. eapply nolinks_update; eauto using ki_trunc.
  - (* Rename *)
    destruct (lookup s src) as [n|] eqn:Hs; [|discriminate]. destruct dst as [|d0 dst]; [discriminate|].
    set (b := d0 :: dst) in *.
    destruct (path_eq_dec src b); [now injection E as <-|].
    destruct (negb (isdir s (parent b))); [discriminate|].
    assert (Hmv : nolinks (set_node (remove s src) b n)) by (apply nolinks_move; [now apply lookup_In|exact H]).
    assert (Hdir : nolinks (rename_dir s src b)).
    { intros p1 p2 n1 n2 i H1 H2 I1 I2.
      apply In_rename_dir in H1 as [r1 [H1 ->]]. apply In_rename_dir in H2 as [r2 [H2 ->]].
      f_equal. eapply H; eauto. }
    destruct (is_dir_node n).
    + destruct (is_prefix src b); [discriminate|].
      destruct (lookup s b) as [m|].
      * destruct (is_dir_node m && negb (has_child s b)); [|discriminate]. now injection E as <-.
      * now injection E as <-.
    + destruct (lookup s b) as [m|].
      * destruct (is_dir_node m); [discriminate|].
        destruct (ino_of n) as [i1|], (ino_of m) as [i2|]; try (now injection E as <-).
        destruct (N.eqb i1 i2); now injection E as <-.
      * now injection E as <-.
  - destruct (lookup s p) as [n|]; [|discriminate]. destruct (is_dir_node n); [discriminate|].
    injection E as <-. now apply nolinks_remove.
  - destruct (lookup s p) as [n|]; [|discriminate].
    destruct (is_dir_node n && negb (has_child s p)); [|discriminate].
    injection E as <-. now apply nolinks_remove.
  - destruct (can_create s p); [|discriminate]. injection E as <-. now apply nolinks_new.
  - destruct (can_create s p); [|discriminate]. injection E as <-. now apply nolinks_new.
  - destruct (can_create s p); [|discriminate]. injection E as <-. now apply nolinks_new.
  - destruct (lookup s p) as [n|]; [|discriminate]. destruct (is_sym_node n); [discriminate|].
    eapply nolinks_update; eauto using ki_mode.
  - eapply nolinks_update; eauto using ki_owner.
  - destruct (lookup s p) as [n|]; [|discriminate]. destruct (is_sym_node n); [discriminate|].
    eapply nolinks_update; eauto using ki_mtime.
Qed.

Lemma nolinks_run l : Forall plain l -> forall s, nolinks s -> nolinks (run l s).
Proof.
  intro H. apply run_inv. eapply Forall_impl; [|exact H]. cbn. intros o Ho s s'. now apply nolinks_step.
Qed.
Lemma nolinks_run_opt l : Forall plain l -> forall s s', nolinks s -> run_opt l s = Some s' -> nolinks s'.
Proof. intros H s s' Hs E. apply run_opt_run in E. subst. now apply nolinks_run. Qed.

(* ------------------------------------------------------------------ prefixes *)
Lemma is_prefix_true a : forall q, is_prefix a q = true -> exists r, q = a ++ r.
Proof.
  induction a as [|x a IH]; intros q H; cbn in H.
  - now exists q.
  - destruct q as [|y q]; [discriminate|].
    destruct (list_eq_dec N.eq_dec x y) as [->|]; [|discriminate].
    destruct (IH _ H) as [r ->]. now exists r.
Qed.

Section Generic.
  Variable cat_ok : str -> bool.
  Variable skip : str -> bool.
  Variable as_dir : bool.
  Variable loc : path.
  Notation visible := (visible cat_ok skip loc).
  Notation view_eq := (view_eq cat_ok skip as_dir loc).

  Definition agree (a b : fs) : Prop := forall q, visible q -> lookup a q = lookup b q.

  Lemma agree_refl a : agree a a. Proof. intros q _. reflexivity. Qed.
  Lemma agree_sym a b : agree a b -> agree b a. Proof. intros H q Hq. symmetry. now apply H. Qed.
  Lemma agree_trans a b c : agree a b -> agree b c -> agree a c.
  Proof. intros H1 H2 q Hq. rewrite H1, H2; auto. Qed.

  Lemma agree_view_eq a b : agree a b -> view_eq a b.
  Proof.
    intros H c x. unfold listed, content, read_file.
    destruct (cat_ok c) eqn:Hc; cbn; [|split; [reflexivity|discriminate]].
    destruct (skip x) eqn:Hx; cbn; [split; [reflexivity|discriminate]|].
    split.
    - rewrite (H (loc ++ [c; x])); [reflexivity|]. now exists c, x, [].
    - intros _ rest. rewrite (H (loc ++ c :: x :: rest)); [reflexivity|]. now exists c, x, rest.
  Qed.

  (* an op that names invisible paths only *)
  Definition outside (o : op) : Prop :=
    match o with
    | Mkdir p _ | Create p _ | Append p _ | Truncate p | Chmod p _ | Chown p _ _ | Utime p _
    | Unlink p | Rmdir p => ~ visible p
    | Rename a b => forall r, is_prefix a r = true \/ is_prefix b r = true -> ~ visible r
    | _ => False
    end.
  Lemma outside_plain o : outside o -> plain o.
  Proof. destruct o; cbn; auto. Qed.

  Lemma outside_frame s o s' : nolinks s -> outside o -> apply_op s o = Some s' -> agree s' s.
  Proof.
    intros Hn Ho E q Hq. eapply apply_op_frame; [exact E|].
    assert (Hsh : forall p, ~ visible p -> ~ (q = p \/ shares_ino s p q)).
    { intros p Hp [->|[n [m [i [H1 [H2 [I1 I2]]]]]]]; [auto|].
      apply lookup_In in H1. apply lookup_In in H2.
      assert (p = q) by (eapply Hn; eauto). subst. auto. }
    destruct o; cbn [outside affects op_paths] in *; try contradiction; auto;
      try (intros [<-|[]]; auto).
    intro H. exact (Ho q H Hq).
  Qed.

  Lemma outside_run l : Forall outside l -> forall s, nolinks s -> agree (run l s) s.
  Proof.
    induction 1 as [|o l Ho Hl IH]; intros s Hs; cbn; [apply agree_refl|].
    destruct (apply_op s o) as [s'|] eqn:E; [|apply agree_refl].
    eapply agree_trans; [apply IH; eapply nolinks_step; eauto using outside_plain|].
    eapply outside_frame; eauto.
  Qed.

  (* THE GENERIC THEOREM: pre and post name invisible paths only *)
  Theorem window pre mid post s :
    nolinks s -> Forall outside pre -> Forall plain mid -> Forall outside post ->
    crash_consistent_outside cat_ok skip as_dir loc (length pre) (length pre + length mid)
                             (pre ++ mid ++ post) s.
  Proof.
    intros Hn Hpre Hmid Hpost k [Hk|Hk].
    - left. apply agree_view_eq.
      rewrite firstn_app. replace (k - length pre) with 0 by lia. cbn. rewrite app_nil_r.
      apply outside_run; [now apply Forall_firstn|exact Hn].
    - right. apply agree_view_eq.
      rewrite app_assoc. rewrite firstn_app, firstn_all2 by (rewrite app_length; lia).
      rewrite !run_app.
      destruct (run_opt (pre ++ mid) s) as [t|] eqn:E; [|apply agree_refl].
      assert (Ht : nolinks t).
      { eapply nolinks_run_opt; [|exact Hn|exact E]. apply Forall_app. split; [|exact Hmid].
        eapply Forall_impl; [|exact Hpre]. apply outside_plain. }
      eapply agree_trans; [apply outside_run; [now apply Forall_firstn|exact Ht]|].
      apply agree_sym. now apply outside_run.
  Qed.

  (* one commit op: every crash point *)
  Corollary single_commit pre c post s :
    nolinks s -> Forall outside pre -> plain c -> Forall outside post ->
    crash_consistent cat_ok skip as_dir loc (pre ++ c :: post) s.
  Proof.
    intros Hn Hpre Hc Hpost k.
    apply (window pre [c] post s Hn Hpre (Forall_cons _ Hc (Forall_nil _)) Hpost k). cbn. lia.
  Qed.

  (* invisible paths of a repository at [loc] *)
  Lemma invisible_loc : ~ visible loc.
  Proof.
    intros [c [x [rest [E _]]]]. apply (f_equal (@length _)) in E. rewrite app_length in E. cbn in E. lia.
  Qed.
  Lemma invisible_cat c : ~ visible (loc ++ [c]).
  Proof.
    intros [c' [x [rest [E _]]]]. apply app_inv_head in E. discriminate.
  Qed.
  Lemma invisible_skipped c x r : skip x = true -> ~ visible (loc ++ c :: x :: r).
  Proof.
    intros Hx [c' [x' [rest [E [_ Hs]]]]]. apply app_inv_head in E. injection E as <- <- <-. congruence.
  Qed.
  Lemma invisible_badcat c r : cat_ok c = false -> ~ visible (loc ++ c :: r).
  Proof.
    intros Hc [c' [x' [rest [E [Hc' _]]]]]. apply app_inv_head in E. injection E as <- _. congruence.
  Qed.
End Generic.

(* ------------------------------------------------------------------ names *)
Lemma startswith_app p s : startswith p (p ++ s) = true.
Proof. induction p as [|x p IH]; cbn; [reflexivity|]. now rewrite N.eqb_refl. Qed.
Lemma vdb_skip_tmp pf : vdb_skip (TMP ++ pf) = true.
Proof. unfold vdb_skip. now rewrite startswith_app. Qed.
Lemma bin_skip_tmp x : bin_skip (TMP ++ x) = true.
Proof. unfold bin_skip. rewrite startswith_app. now rewrite !orb_true_r. Qed.

(* ------------------------------------------------------------------ vdb *)
Section Vdb.
  Variable loc : path.
  Notation vis := (visible vdb_cat_ok vdb_skip loc).
  Notation out := (outside vdb_cat_ok vdb_skip loc).

  Lemma under_tmp_invisible cat pf r : ~ vis (tmpdir loc cat pf ++ r).
  Proof.
    unfold tmpdir. rewrite <- app_assoc. cbn. apply invisible_skipped. apply vdb_skip_tmp.
  Qed.
  Lemma ensure_out s p : ~ vis p -> Forall out (ensure_dir s p).
  Proof. intro H. unfold ensure_dir. destruct (bound s p); repeat constructor; exact H. Qed.
  Lemma open_w_out s p m : ~ vis p -> out (open_w s p m).
  Proof. intro H. unfold open_w. destruct (bound s p); exact H. Qed.
  Lemma put_out p ch : ~ vis p -> Forall out (put p ch).
  Proof. intro H. unfold put. apply Forall_forall. intros o Ho. apply in_map_iff in Ho as [d [<- _]]. exact H. Qed.

  Lemma item_out s cat pf it : Forall out (item_ops s (tmpdir loc cat pf) it).
  Proof.
    assert (T : forall n, ~ vis (tmpdir loc cat pf ++ [n])) by (intro n; apply under_tmp_invisible).
    destruct it as [n ch|ch]; cbn [item_ops].
    - constructor; [now apply open_w_out|now apply put_out].
    - constructor; [now apply open_w_out|]. constructor; [cbn; auto|]. constructor; [cbn; auto|].
      apply Forall_app. split; [now apply put_out|].
      repeat constructor; cbn; auto.
      intros r [H|H]; apply is_prefix_true in H as [r' ->]; rewrite <- app_assoc; apply under_tmp_invisible.
  Qed.

  Lemma stage_out s cat pf items : Forall out (vdb_stage s loc cat pf items).
  Proof.
    unfold vdb_stage. repeat (apply Forall_app; split).
    - apply ensure_out. apply invisible_cat.
    - apply ensure_out. rewrite <- (app_nil_r (tmpdir loc cat pf)). apply under_tmp_invisible.
    - repeat constructor. cbn. apply invisible_loc.
    - induction items as [|it items IH]; cbn; [constructor|]. apply Forall_app. split; [apply item_out|exact IH].
  Qed.
  Lemma utime_loc_out : out (Utime loc NOW).
  Proof. cbn. apply invisible_loc. Qed.

  Fixpoint rm_plain (t : rt) : forall d, Forall plain (rm_ops d t).
  Proof.
    destruct t as [n|n ch]; intro d.
    - repeat constructor.
    - cbn [rm_ops]. apply Forall_app. split; [|repeat constructor].
      induction ch as [|t' ch IHc]; [constructor|]. apply Forall_app. split; [apply rm_plain|exact IHc].
  Qed.
  Lemma rmtree_plain d tree : Forall plain (rmtree_ops d tree).
  Proof.
    unfold rmtree_ops. apply Forall_app. split; [|repeat constructor].
    induction tree as [|t tree IH]; cbn; [constructor|]. apply Forall_app. split; [apply rm_plain|exact IH].
  Qed.
  Lemma rmdir_if_empty_out s cat : Forall out (rmdir_if_empty s (loc ++ [cat])).
  Proof. unfold rmdir_if_empty. destruct (has_child _ _); repeat constructor. cbn. apply invisible_cat. Qed.

  (* install: the single rename of the staging directory is the commit point *)
  Theorem vdb_install_consistent_proof s cat pf items :
    nolinks s -> vdb_consistent loc (vdb_install_ops s loc cat pf items) s.
  Proof.
    intro Hn. unfold vdb_install_ops, vdb_commit.
    apply (single_commit vdb_cat_ok vdb_skip true loc (vdb_stage s loc cat pf items)
                         (Rename (tmpdir loc cat pf) (pkgdir loc cat pf)) [Utime loc NOW] s Hn).
    - apply stage_out.
    - exact I.
    - repeat constructor. apply utime_loc_out.
  Qed.

  (* uninstall: consistent before rmtree starts and once it has finished *)
  Theorem vdb_uninstall_partial_proof s cat old tree :
    nolinks s ->
    vdb_consistent_outside loc 1 (uninstall_hi loc cat old tree)
                           (vdb_uninstall_ops s loc cat old tree) s.
  Proof.
    intro Hn. unfold vdb_uninstall_ops, vdb_unmerge, uninstall_hi.
    set (R := rmtree_ops (pkgdir loc cat old) tree).
    set (E := rmdir_if_empty _ _).
    replace (([Utime loc NOW] ++ R ++ [Utime loc NOW]) ++ E)
      with ([Utime loc NOW] ++ R ++ ([Utime loc NOW] ++ E)) by (now rewrite <- !app_assoc).
    apply (window vdb_cat_ok vdb_skip true loc [Utime loc NOW] R ([Utime loc NOW] ++ E) s Hn).
    - repeat constructor. apply utime_loc_out.
    - apply rmtree_plain.
    - constructor; [apply utime_loc_out|apply rmdir_if_empty_out].
  Qed.

  (* replace: consistent until rmtree(old) starts and from the rename of the new directory on *)
  Theorem vdb_replace_partial_proof s cat old pf tree items :
    nolinks s ->
    vdb_consistent_outside loc (replace_lo loc s cat pf items) (replace_hi loc s cat old pf tree items)
                           (vdb_replace_ops s loc cat old pf tree items) s.
  Proof.
    intro Hn. unfold vdb_replace_ops, vdb_unmerge, vdb_commit, replace_hi, replace_lo.
    set (S := vdb_stage s loc cat pf items).
    set (R := rmtree_ops (pkgdir loc cat old) tree).
    set (C := Rename (tmpdir loc cat pf) (pkgdir loc cat pf)).
    replace (S ++ ([Utime loc NOW] ++ R ++ [Utime loc NOW]) ++ [C; Utime loc NOW])
      with ((S ++ [Utime loc NOW]) ++ (R ++ [Utime loc NOW; C]) ++ [Utime loc NOW])
      by (rewrite <- !app_assoc; cbn; reflexivity).
    replace (length S + 1) with (length (S ++ [Utime loc NOW])) by (rewrite app_length; reflexivity).
    replace (length R + 2) with (length (R ++ [Utime loc NOW; C])) by (rewrite app_length; reflexivity).
    apply (window vdb_cat_ok vdb_skip true loc (S ++ [Utime loc NOW]) (R ++ [Utime loc NOW; C]) [Utime loc NOW] s Hn).
    - apply Forall_app. split; [apply stage_out|repeat constructor; apply utime_loc_out].
    - apply Forall_app. split; [apply rmtree_plain|repeat constructor].
    - repeat constructor. apply utime_loc_out.
  Qed.
End Vdb.

(* ------------------------------------------------------------------ binpkg *)
Section Bin.
  Variable base : path.
  Notation vis := (visible bin_cat_ok bin_skip base).
  Notation out := (outside bin_cat_ok bin_skip base).

  Lemma bin_tmp_invisible cat pid pf : ~ vis (bin_tmp base cat pid pf).
  Proof. unfold bin_tmp. apply invisible_skipped. apply bin_skip_tmp. Qed.
  Lemma cache_invisible n r : bin_cat_ok n = false -> ~ vis (base ++ n :: r).
  Proof. apply invisible_badcat. Qed.
  Lemma cat_ok_upd : bin_cat_ok (UPDATE ++ PACKAGES) = false. Proof. reflexivity. Qed.
  Lemma cat_ok_pk : bin_cat_ok PACKAGES = false. Proof. reflexivity. Qed.

  Lemma b_ensure_out s p : ~ vis p -> Forall out (ensure_dir s p).
  Proof. intro H. unfold ensure_dir. destruct (bound s p); repeat constructor; exact H. Qed.
  Lemma b_open_w_out s p m : ~ vis p -> out (open_w s p m).
  Proof. intro H. unfold open_w. destruct (bound s p); exact H. Qed.
  Lemma b_put_out p ch : ~ vis p -> Forall out (put p ch).
  Proof. intro H. unfold put. apply Forall_forall. intros o Ho. apply in_map_iff in Ho as [d [<- _]]. exact H. Qed.

  Lemma bin_stage_out s cat pid pf chunks : Forall out (bin_stage s base cat pid pf chunks).
  Proof.
    pose proof (bin_tmp_invisible cat pid pf) as T.
    unfold bin_stage. apply Forall_app. split; [apply b_ensure_out, invisible_cat|].
    constructor; [now apply b_open_w_out|]. apply Forall_app. split; [now apply b_put_out|].
    repeat constructor. exact T.
  Qed.
  Lemma bin_cache_out s cache : Forall out (bin_cache s base cache).
  Proof.
    unfold bin_cache.
    assert (U : ~ vis (base ++ [UPDATE ++ PACKAGES])) by (apply cache_invisible, cat_ok_upd).
    constructor; [now apply b_open_w_out|]. apply Forall_app. split; [now apply b_put_out|].
    repeat constructor. cbn.
    intros r [H|H]; apply is_prefix_true in H as [r' ->]; rewrite <- app_assoc; cbn;
      apply cache_invisible; reflexivity.
  Qed.

  (* install and same-version replace: the rename of the tarball is the commit point *)
  Theorem bin_install_consistent_proof s cat pid pf chunks cache :
    nolinks s -> bin_consistent base (bin_install_ops s base cat pid pf chunks cache) s.
  Proof.
    intro Hn. unfold bin_install_ops.
    apply (single_commit bin_cat_ok bin_skip false base (bin_stage s base cat pid pf chunks)
                         (Rename (bin_tmp base cat pid pf) (bin_final base cat pf)) (bin_cache s base cache) s Hn).
    - apply bin_stage_out.
    - exact I.
    - apply bin_cache_out.
  Qed.

  (* uninstall: the unlink is the commit point *)
  Theorem bin_uninstall_consistent_proof s cat old :
    nolinks s -> bin_consistent base (bin_uninstall_ops s base cat old) s.
  Proof.
    intro Hn. unfold bin_uninstall_ops.
    apply (single_commit bin_cat_ok bin_skip false base [] (Unlink (bin_final base cat old)) _ s Hn).
    - constructor.
    - exact I.
    - unfold rmdir_if_empty. destruct (has_child _ _); repeat constructor. cbn. apply invisible_cat.
  Qed.
End Bin.

(* ------------------------------------------------------------------ the full statements, and where they fail *)
Definition vdb_replace_full : Prop :=
  forall loc s cat old pf tree items,
    nolinks s -> vdb_consistent loc (vdb_replace_ops s loc cat old pf tree items) s.
Definition vdb_uninstall_full : Prop :=
  forall loc s cat old tree,
    nolinks s -> vdb_consistent loc (vdb_uninstall_ops s loc cat old tree) s.

Module Ex.
  Definition v : str := s2l "v"%bs.
  Definition c : str := s2l "c"%bs.
  Definition p1 : str := s2l "p-1"%bs.
  Definition p2 : str := s2l "p-2"%bs.
  Definition SLOT : str := s2l "SLOT"%bs.
  Definition EAPI : str := s2l "EAPI"%bs.
  Definition d0 : list N := [48; 10]%N.
  Definition d1 : list N := [49; 10]%N.
  (* a vdb at /v holding c/p-1 with two metadata files *)
  Definition s0 : fs :=
    [([v], Dir 493 0 0 5); ([v; c], Dir 493 0 0 5); ([v; c; p1], Dir 493 0 0 5);
     ([v; c; p1; SLOT], File d0 420 0 0 5 1); ([v; c; p1; EAPI], File [56; 10]%N 420 0 0 5 2)].
  Definition tree : list rt := [RF SLOT; RF EAPI].
  Definition items : list item := [W SLOT [d1]; WC [[100; 10]%N]].
  Definition replace_ops := vdb_replace_ops s0 [v] c p1 p2 tree items.
  Definition uninstall_ops := vdb_uninstall_ops s0 [v] c p1 tree.
  Definition install_ops := vdb_install_ops s0 [v] c p2 items.

  Lemma s0_nolinks : nolinks s0.
  Proof.
    intros p q n m i H1 H2 I1 I2. cbn in H1, H2.
    repeat (destruct H1 as [H1|H1]; [injection H1 as <- <-|]); try contradiction;
      repeat (destruct H2 as [H2|H2]; [injection H2 as <- <-|]); try contradiction;
      cbn in I1, I2; congruence.
  Qed.
End Ex.

(* non-vacuity: every op of the three example updates succeeds, the completed install lists the
   new package with its files, the completed replace lists only the new one *)
Example ex_ops_succeed :
  (exists t, run_opt Ex.install_ops Ex.s0 = Some t)
  /\ (exists t, run_opt Ex.replace_ops Ex.s0 = Some t)
  /\ (exists t, run_opt Ex.uninstall_ops Ex.s0 = Some t).
Proof. repeat split; eexists; vm_compute; reflexivity. Qed.
Example ex_install_complete :
  vdb_view (run Ex.install_ops Ex.s0) [Ex.v]
  = VL [VL [VS Ex.c; VS Ex.p1; VL [VNone; VS [48%N]; VS [56%N]; VNone; VNone; VNone; VNone; VNone; VNone; VNone; VNone; VNone; VNone]];
        VL [VS Ex.c; VS Ex.p2; VL [VNone; VS [49%N]; VNone; VNone; VNone; VNone; VNone; VNone; VNone; VNone; VS [100; 10]%N; VNone; VNone]]].
Proof. vm_compute. reflexivity. Qed.
Example ex_replace_final :
  vdb_view (run Ex.replace_ops Ex.s0) [Ex.v]
  = VL [VL [VS Ex.c; VS Ex.p2; VL [VNone; VS [49%N]; VNone; VNone; VNone; VNone; VNone; VNone; VNone; VNone; VS [100; 10]%N; VNone; VNone]]].
Proof. vm_compute. reflexivity. Qed.
Example ex_replace_window :
  replace_lo [Ex.v] Ex.s0 Ex.c Ex.p2 Ex.items = 10
  /\ replace_hi [Ex.v] Ex.s0 Ex.c Ex.p1 Ex.p2 Ex.tree Ex.items = 15.
Proof. vm_compute. split; reflexivity. Qed.

(* crash point 11 of the example replace: inside rmtree(old) — the old package is still listed
   but its SLOT file is gone: a partially removed package *)
Lemma replace_k11_not_old : ~ vdb_view_eq [Ex.v] (run (firstn 11 Ex.replace_ops) Ex.s0) Ex.s0.
Proof.
  intro E. destruct (E Ex.c Ex.p1) as [_ E2]. specialize (E2 eq_refl [Ex.SLOT]).
  vm_compute in E2. discriminate.
Qed.
Lemma replace_k11_not_new :
  ~ vdb_view_eq [Ex.v] (run (firstn 11 Ex.replace_ops) Ex.s0) (run Ex.replace_ops Ex.s0).
Proof. intro E. destruct (E Ex.c Ex.p1) as [E1 _]. vm_compute in E1. discriminate. Qed.
(* crash point 14: rmtree(old) done, rename(new) not yet — neither package is listed *)
Lemma replace_k14_not_old : ~ vdb_view_eq [Ex.v] (run (firstn 14 Ex.replace_ops) Ex.s0) Ex.s0.
Proof. intro E. destruct (E Ex.c Ex.p1) as [E1 _]. vm_compute in E1. discriminate. Qed.
Lemma replace_k14_not_new :
  ~ vdb_view_eq [Ex.v] (run (firstn 14 Ex.replace_ops) Ex.s0) (run Ex.replace_ops Ex.s0).
Proof. intro E. destruct (E Ex.c Ex.p2) as [E1 _]. vm_compute in E1. discriminate. Qed.

Theorem vdb_replace_refuted_proof : ~ vdb_replace_full.
Proof.
  intro H. specialize (H [Ex.v] Ex.s0 Ex.c Ex.p1 Ex.p2 Ex.tree Ex.items Ex.s0_nolinks 14).
  destruct H as [H|H]; [exact (replace_k14_not_old H)|exact (replace_k14_not_new H)].
Qed.
Theorem vdb_replace_refuted_inside_rmtree_proof :
  exists loc s cat old pf tree items k,
    nolinks s
    /\ ~ vdb_view_eq loc (run (firstn k (vdb_replace_ops s loc cat old pf tree items)) s) s
    /\ ~ vdb_view_eq loc (run (firstn k (vdb_replace_ops s loc cat old pf tree items)) s)
                         (run (vdb_replace_ops s loc cat old pf tree items) s)
    /\ listed vdb_cat_ok vdb_skip true loc (run (firstn k (vdb_replace_ops s loc cat old pf tree items)) s) cat old = true.
Proof.
  exists [Ex.v], Ex.s0, Ex.c, Ex.p1, Ex.p2, Ex.tree, Ex.items, 11.
  split; [exact Ex.s0_nolinks|]. split; [exact replace_k11_not_old|]. split; [exact replace_k11_not_new|].
  vm_compute. reflexivity.
Qed.
(* uninstall: crash point 2 — after the first unlink of rmtree *)
Theorem vdb_uninstall_refuted_proof : ~ vdb_uninstall_full.
Proof.
  intro H. specialize (H [Ex.v] Ex.s0 Ex.c Ex.p1 Ex.tree Ex.s0_nolinks 2).
  destruct H as [E|E].
  - destruct (E Ex.c Ex.p1) as [_ E2]. specialize (E2 eq_refl [Ex.SLOT]). vm_compute in E2. discriminate.
  - destruct (E Ex.c Ex.p1) as [E1 _]. vm_compute in E1. discriminate.
Qed.
