(* Lemmas_C27.v — numerals, strings and dict lemmas used by the proofs of C27. *)
From Coq Require Import List NArith ZArith Bool Arith Lia Permutation.
From Coq Require Decimal Hexadecimal DecimalN DecimalFacts DecimalPos HexadecimalN HexadecimalFacts HexadecimalPos.
From Coq Require String.
Import String.StringSyntax.
Import ListNotations.
From Verif Require Import Base.Val C18.Fs C18.FsLemmas C27.Model_C27 C27.Spec_C27.
Local Open Scope N_scope.

(* ------------------------------------------------------------------ numerals *)
Lemma str_uint_uint_str u : str_uint (uint_str u) = Some u.
Proof. induction u; cbn [uint_str str_uint]; try rewrite IHu; reflexivity. Qed.

Lemma to_uint_not_nil n : N.to_uint n <> Decimal.Nil.
Proof.
  destruct n as [|p]; cbn; [discriminate|].
  apply DecimalPos.Unsigned.to_uint_nonnil.
Qed.

Lemma uint_str_nil u : uint_str u = [] -> u = Decimal.Nil.
Proof. destruct u; cbn; intro H; try discriminate; reflexivity. Qed.

Lemma dec_not_nil n : dec n <> [].
Proof. unfold dec. intro E. apply uint_str_nil in E. eapply to_uint_not_nil; eauto. Qed.

Lemma parse_num_dec_proof n : parse_num (dec n) = Some n.
Proof.
  unfold parse_num. pose proof (dec_not_nil n) as H. destruct (dec n) eqn:E; [congruence|].
  rewrite <- E. unfold dec. rewrite str_uint_uint_str. f_equal. apply DecimalN.Unsigned.of_to.
Qed.

Lemma str_hex_hex_str u : str_hex (hex_str u) = Some u.
Proof. induction u; cbn [hex_str str_hex]; try rewrite IHu; reflexivity. Qed.

Lemma hex_str_nil u : hex_str u = [] -> u = Hexadecimal.Nil.
Proof. destruct u; cbn; intro H; try discriminate; reflexivity. Qed.

Lemma to_hex_uint_not_nil n : N.to_hex_uint n <> Hexadecimal.Nil.
Proof.
  destruct n as [|p]; cbn; [discriminate|].
  apply HexadecimalPos.Unsigned.to_uint_nonnil.
Qed.

Lemma hex_not_nil n : hex n <> [].
Proof. unfold hex. intro E. apply hex_str_nil in E. eapply to_hex_uint_not_nil; eauto. Qed.

Fixpoint pad0 (k : nat) (u : Hexadecimal.uint) : Hexadecimal.uint :=
  match k with O => u | S k' => Hexadecimal.D0 (pad0 k' u) end.

Lemma str_hex_pad k s u : str_hex s = Some u -> str_hex (repeat 48 k ++ s) = Some (pad0 k u).
Proof. intro H. induction k as [|k IH]; cbn [repeat app str_hex pad0]; [exact H|]. rewrite IH. reflexivity. Qed.

Lemma of_hex_pad k u : N.of_hex_uint (pad0 k u) = N.of_hex_uint u.
Proof. induction k as [|k IH]; cbn [pad0]; [reflexivity|]. exact IH. Qed.

Lemma parse_hex_hex32_proof n : parse_hex (hex32 n) = Some n.
Proof.
  unfold parse_hex, hex32. pose proof (hex_not_nil n) as H.
  set (k := (32 - length (hex n))%nat).
  destruct (repeat 48 k ++ hex n) eqn:E.
  - apply app_eq_nil in E as [_ E]. congruence.
  - rewrite <- E. unfold hex at 1. rewrite (str_hex_pad k _ _ (str_hex_hex_str _)).
    rewrite of_hex_pad. f_equal. apply HexadecimalN.Unsigned.of_to.
Qed.

(* digits and hex digits are not blanks, tabs, line ends or "=" *)
Definition plain (c : N) : bool :=
  negb (is_space c) && negb (c =? c_eq).
Lemma uint_str_plain u : forallb plain (uint_str u) = true.
Proof. induction u; cbn [uint_str forallb]; try rewrite IHu; reflexivity. Qed.
Lemma hex_str_plain u : forallb plain (hex_str u) = true.
Proof. induction u; cbn [hex_str forallb]; try rewrite IHu; reflexivity. Qed.
Lemma dec_plain n : forallb plain (dec n) = true.
Proof. apply uint_str_plain. Qed.
Lemma hex32_plain n : forallb plain (hex32 n) = true.
Proof.
  unfold hex32. rewrite forallb_app. apply andb_true_iff. split; [|apply hex_str_plain].
  induction (32 - length (hex n))%nat; cbn; [reflexivity|assumption].
Qed.
Lemma hex32_not_nil n : hex32 n <> [].
Proof. unfold hex32. intro E. apply app_eq_nil in E as [_ E]. eapply hex_not_nil; eauto. Qed.

(* ------------------------------------------------------------------ strings *)
Definition no_nl (s : str) : bool := forallb (fun c => negb (c =? c_nl) && negb (c =? c_cr)) s.
Definition no_eq (s : str) : bool := forallb (fun c => negb (c =? c_eq)) s.
Definition no_tab (s : str) : bool := forallb (fun c => negb (c =? c_tab)) s.
Definition no_space (s : str) : bool := forallb (fun c => negb (is_space c)) s.
Definition starts_nonspace (s : str) : bool := match s with c :: _ => negb (is_space c) | [] => false end.

Lemma plain_no_space s : forallb plain s = true -> no_space s = true.
Proof.
  unfold no_space. induction s as [|c s IH]; cbn; [reflexivity|]. intro H.
  apply andb_true_iff in H as [Hc Hs]. unfold plain in Hc. apply andb_true_iff in Hc as [Hc _].
  rewrite Hc, IH; auto.
Qed.
Lemma space_is_nl c : (c =? c_nl) || (c =? c_cr) || (c =? c_tab) = true -> is_space c = true.
Proof.
  intro H. apply orb_true_iff in H as [H|H]; [apply orb_true_iff in H as [H|H]|];
    apply N.eqb_eq in H; subst c; reflexivity.
Qed.
Lemma no_space_no_nl s : no_space s = true -> no_nl s = true.
Proof.
  unfold no_space, no_nl. induction s as [|c s IH]; cbn; [reflexivity|]. intro H.
  apply andb_true_iff in H as [Hc Hs]. rewrite IH by assumption. rewrite andb_true_r.
  destruct (c =? c_nl) eqn:E1; [rewrite space_is_nl in Hc; [discriminate|rewrite E1; reflexivity]|].
  destruct (c =? c_cr) eqn:E2; [rewrite space_is_nl in Hc; [discriminate|rewrite E1, E2; reflexivity]|].
  reflexivity.
Qed.
Lemma no_space_no_tab s : no_space s = true -> no_tab s = true.
Proof.
  unfold no_space, no_tab. induction s as [|c s IH]; cbn; [reflexivity|]. intro H.
  apply andb_true_iff in H as [Hc Hs]. rewrite IH by assumption. rewrite andb_true_r.
  destruct (c =? c_tab) eqn:E; [rewrite space_is_nl in Hc; [discriminate|rewrite E; apply orb_true_r]|reflexivity].
Qed.

Lemma rstrip_cons_nonspace c r : is_space c = false -> rstrip (c :: r) = c :: rstrip r.
Proof. intro H. cbn [rstrip]. destruct (rstrip r); [rewrite H|]; reflexivity. Qed.

Lemma rstrip_app a b : rstrip b <> [] -> rstrip (a ++ b) = a ++ rstrip b.
Proof.
  intro H. induction a as [|c a IH]; cbn [app rstrip]; [reflexivity|].
  rewrite IH. destruct (a ++ rstrip b) eqn:E; [|reflexivity].
  apply app_eq_nil in E as [_ E]. congruence.
Qed.

Lemma rstrip_no_space s : no_space s = true -> rstrip s = s.
Proof.
  unfold no_space. induction s as [|c s IH]; cbn [forallb]; [reflexivity|]. intro H.
  apply andb_true_iff in H as [Hc Hs]. apply negb_true_iff in Hc.
  rewrite rstrip_cons_nonspace by assumption. rewrite IH by assumption. reflexivity.
Qed.

Lemma lstrip_starts s : starts_nonspace s = true -> lstrip s = s.
Proof. destruct s as [|c s]; cbn; [discriminate|]. intro H. apply negb_true_iff in H. rewrite H. reflexivity. Qed.

(* a stripped cache line *)
Lemma strip_line k v : starts_nonspace k = true ->
  strip (k ++ c_eq :: v) = k ++ c_eq :: rstrip v.
Proof.
  intro H. unfold strip. rewrite lstrip_starts by (destruct k; [discriminate|exact H]).
  assert (E : rstrip (c_eq :: v) = c_eq :: rstrip v) by (apply rstrip_cons_nonspace; reflexivity).
  rewrite rstrip_app; rewrite E; [reflexivity|discriminate].
Qed.

Lemma split_eq_line k v : no_eq k = true -> split_eq (k ++ c_eq :: v) = Some (k, v).
Proof.
  unfold no_eq. induction k as [|c k IH]; cbn [app split_eq forallb]; intro H.
  - rewrite N.eqb_refl. reflexivity.
  - apply andb_true_iff in H as [Hc Hk]. apply negb_true_iff in Hc. rewrite Hc, IH by assumption. reflexivity.
Qed.

Lemma split_lines_line l rest : no_nl l = true ->
  split_lines_ false (l ++ c_nl :: rest) = l :: split_lines_ false rest.
Proof.
  unfold no_nl. induction l as [|c l IH]; cbn [app split_lines_ forallb]; intro H.
  - rewrite N.eqb_refl. reflexivity.
  - apply andb_true_iff in H as [Hc Hl]. apply andb_true_iff in Hc as [H1 H2].
    apply negb_true_iff in H1, H2. rewrite H1, H2, IH by assumption. reflexivity.
Qed.

Lemma no_nl_app a b : no_nl (a ++ b) = no_nl a && no_nl b.
Proof. apply forallb_app. Qed.

Lemma split_lines_content (l : list (str * str)) :
  Forall (fun kv => no_nl (fst kv) = true /\ no_nl (snd kv) = true) l ->
  split_lines (flat_map line l) = map (fun kv => fst kv ++ c_eq :: snd kv) l.
Proof.
  unfold split_lines. induction 1 as [|kv l [Hk Hv] _ IH]; cbn [flat_map map]; [reflexivity|].
  unfold line at 1.
  replace ((fst kv ++ c_eq :: snd kv ++ [c_nl]) ++ flat_map line l)
    with ((fst kv ++ c_eq :: snd kv) ++ c_nl :: flat_map line l)
    by (rewrite <- !app_assoc; cbn; rewrite <- app_assoc; reflexivity).
  rewrite split_lines_line, IH; [reflexivity|].
  rewrite no_nl_app, Hk. cbn. exact Hv.
Qed.

(* split / join on a separator *)
Lemma split_on_plain sep s : forallb (fun c => negb (c =? sep)) s = true -> split_on sep s = [s].
Proof.
  induction s as [|c s IH]; cbn [split_on forallb]; [reflexivity|]. intro H.
  apply andb_true_iff in H as [Hc Hs]. apply negb_true_iff in Hc. rewrite Hc, IH by assumption. reflexivity.
Qed.
Lemma split_on_app sep s rest : forallb (fun c => negb (c =? sep)) s = true ->
  split_on sep (s ++ sep :: rest) = s :: split_on sep rest.
Proof.
  induction s as [|c s IH]; cbn [app split_on forallb]; intro H.
  - rewrite N.eqb_refl. reflexivity.
  - apply andb_true_iff in H as [Hc Hs]. apply negb_true_iff in Hc. rewrite Hc, IH by assumption. reflexivity.
Qed.
Lemma split_join sep items : items <> [] ->
  Forall (fun s => forallb (fun c => negb (c =? sep)) s = true) items ->
  split_on sep (join_on sep items) = items.
Proof.
  intros Hne H. induction H as [|x r Hx Hr IH]; [congruence|].
  destruct r as [|y r].
  - cbn. apply split_on_plain. exact Hx.
  - change (join_on sep (x :: y :: r)) with (x ++ sep :: join_on sep (y :: r)).
    rewrite split_on_app by exact Hx. rewrite IH by discriminate. reflexivity.
Qed.
Lemma join_on_snoc sep l x : l <> [] -> join_on sep (l ++ [x]) = join_on sep l ++ sep :: x.
Proof.
  induction l as [|a l IH]; [congruence|]. intros _. destruct l as [|b l].
  - reflexivity.
  - change ((a :: b :: l) ++ [x]) with (a :: (b :: l) ++ [x]).
    change (join_on sep (a :: (b :: l) ++ [x])) with (a ++ sep :: join_on sep ((b :: l) ++ [x])).
    rewrite IH by discriminate.
    change (join_on sep (a :: b :: l)) with (a ++ sep :: join_on sep (b :: l)).
    rewrite <- app_assoc. reflexivity.
Qed.


(* ------------------------------------------------------------------ dicts *)
Section DictLemmas.
  Context {V : Type}.
  Implicit Types d l : list (str * V).

  Lemma str_eqb_sym a b : str_eqb a b = str_eqb b a.
  Proof.
    destruct (str_eqb a b) eqn:E1, (str_eqb b a) eqn:E2; try reflexivity.
    - apply str_eqb_eq in E1. subst. rewrite str_eqb_refl in E2. discriminate.
    - apply str_eqb_eq in E2. subst. rewrite str_eqb_refl in E1. discriminate.
  Qed.

  Lemma dget_dset k k0 (v : V) d :
    dget k (dset k0 v d) = if str_eqb k k0 then Some v else dget k d.
  Proof.
    induction d as [|[k' v'] d IH]; cbn [dset dget]; [reflexivity|].
    destruct (str_eqb k0 k') eqn:E0; cbn [dget].
    - apply str_eqb_eq in E0. subst k'. destruct (str_eqb k k0); reflexivity.
    - destruct (str_eqb k k') eqn:E1.
      + apply str_eqb_eq in E1. subst k'. rewrite str_eqb_sym, E0. reflexivity.
      + exact IH.
  Qed.

  Lemma dget_none k d : ~ In k (map fst d) -> dget k d = None.
  Proof.
    induction d as [|[k' v'] d IH]; cbn; intro H; [reflexivity|].
    destruct (str_eqb k k') eqn:E.
    - apply str_eqb_eq in E. subst. tauto.
    - apply IH. tauto.
  Qed.

  Lemma dget_in k (v : V) d : dget k d = Some v -> In (k, v) d.
  Proof.
    induction d as [|[k' v'] d IH]; cbn; [discriminate|].
    destruct (str_eqb k k') eqn:E; intro H.
    - apply str_eqb_eq in E. subst. injection H as ->. now left.
    - right. auto.
  Qed.

  Lemma in_dget k (v : V) d : NoDup (map fst d) -> In (k, v) d -> dget k d = Some v.
  Proof.
    induction d as [|[k' v'] d IH]; cbn; intros Hn H; [destruct H|].
    inversion Hn as [|? ? Hni Hn']; subst.
    destruct H as [H|H].
    - injection H as -> ->. rewrite str_eqb_refl. reflexivity.
    - destruct (str_eqb k k') eqn:E.
      + apply str_eqb_eq in E. subst. exfalso. apply Hni. apply (in_map fst) in H. exact H.
      + auto.
  Qed.

  Lemma dget_perm k d d' : NoDup (map fst d) -> Permutation d d' -> dget k d = dget k d'.
  Proof.
    intros Hn Hp.
    assert (Hn' : NoDup (map fst d')) by (eapply Permutation_NoDup; [apply Permutation_map; exact Hp|exact Hn]).
    destruct (dget k d) as [v|] eqn:E.
    - symmetry. apply in_dget; [exact Hn'|]. eapply Permutation_in; [exact Hp|]. now apply dget_in.
    - destruct (dget k d') as [v|] eqn:E'; [|reflexivity].
      apply dget_in in E'. apply Permutation_sym in Hp. eapply Permutation_in in E'; [|exact Hp].
      apply in_dget in E'; [congruence|exact Hn].
  Qed.

  Lemma keys_dset k (v : V) d :
    map fst (dset k v d) = if existsb (str_eqb k) (map fst d) then map fst d else map fst d ++ [k].
  Proof.
    induction d as [|[k' v'] d IH]; cbn [dset map existsb fst]; [reflexivity|].
    destruct (str_eqb k k') eqn:E; cbn [map fst orb]; [reflexivity|].
    rewrite IH. destruct (existsb (str_eqb k) (map fst d)); reflexivity.
  Qed.

  Lemma existsb_str_in k (ks : list str) : existsb (str_eqb k) ks = true <-> In k ks.
  Proof.
    rewrite existsb_exists. split.
    - intros [x [Hx E]]. apply str_eqb_eq in E. subst. exact Hx.
    - intro H. exists k. split; [exact H|apply str_eqb_refl].
  Qed.

  Lemma nodup_dset k (v : V) d : NoDup (map fst d) -> NoDup (map fst (dset k v d)).
  Proof.
    intro H. rewrite keys_dset. destruct (existsb (str_eqb k) (map fst d)) eqn:E; [exact H|].
    eapply Permutation_NoDup; [apply Permutation_cons_append|].
    constructor; [|exact H]. intro Hin. apply existsb_str_in in Hin. congruence.
  Qed.

  Lemma forall_dset (P : str * V -> Prop) k (v : V) d :
    P (k, v) -> Forall P d -> Forall P (dset k v d).
  Proof.
    intros Hk H. induction H as [|[k' v'] d Hx Hd IH]; cbn [dset]; [constructor; [exact Hk|constructor]|].
    destruct (str_eqb k k') eqn:E.
    - apply str_eqb_eq in E. subst k'. constructor; assumption.
    - constructor; assumption.
  Qed.

  Lemma insert_sorted_perm (e : str * V) l : Permutation (insert_sorted e l) (e :: l).
  Proof.
    induction l as [|x l IH]; cbn [insert_sorted]; [reflexivity|].
    destruct (str_ltb (fst x) (fst e)); [|reflexivity].
    rewrite IH. apply perm_swap.
  Qed.
  Lemma sort_items_perm d : Permutation (sort_items d) d.
  Proof.
    unfold sort_items. induction d as [|x d IH]; cbn [fold_right]; [reflexivity|].
    rewrite insert_sorted_perm. now constructor.
  Qed.
End DictLemmas.

Lemma dget_map_snd {V W} (f : V -> W) k (d : list (str * V)) :
  dget k (map (fun kv => (fst kv, f (snd kv))) d) = option_map f (dget k d).
Proof.
  induction d as [|[k' v'] d IH]; cbn; [reflexivity|].
  destruct (str_eqb k k'); [reflexivity|exact IH].
Qed.

(* ------------------------------------------------------------------ _parse_data on well-formed lines *)
Definition enc_line (kv : str * str) : str := fst kv ++ c_eq :: snd kv.

Lemma parse_lines_spec lay : forall (l acc : list (str * str)),
  Forall (fun kv => no_eq (fst kv) = true) l -> NoDup (map fst l) ->
  exists acc', parse_lines lay (map enc_line l) acc = Some acc' /\
    forall k, dget k acc' = match dget k l with
                            | Some v => if known lay k then Some v else dget k acc
                            | None => dget k acc
                            end.
Proof.
  induction l as [|[k0 v0] l IH]; intros acc Hf Hn; cbn [map parse_lines].
  - exists acc. split; [reflexivity|]. intro k. reflexivity.
  - inversion Hf as [|? ? Hk0 Hf']; subst. inversion Hn as [|? ? Hni Hn']; subst.
    unfold enc_line at 1. cbn [fst snd] in *. rewrite split_eq_line by exact Hk0.
    destruct (IH (if known lay k0 then dset k0 v0 acc else acc) Hf' Hn') as [acc' [Hp Hg]].
    exists acc'. split; [exact Hp|]. intro k. rewrite Hg. cbn [dget].
    destruct (str_eqb k k0) eqn:E.
    + apply str_eqb_eq in E. subst k. rewrite (dget_none k0 l Hni).
      destruct (known lay k0); [rewrite dget_dset, str_eqb_refl|]; reflexivity.
    + destruct (dget k l) as [v|]; [destruct (known lay k); [reflexivity|]|];
        (destruct (known lay k0); [rewrite dget_dset, E|]; reflexivity).
Qed.
