(* Model_C43.v — executable model of config section collapsing in pkgcore.config.central:
   ConfigManager.reload/_integrate_config_source (sections_lookup construction),
   collapse_named_section, collapse_section, _get_inherited_sections (worklist BFS over
   (name, section stack) entries with a global set of inherited names) and
   _ConfigStack.render_value (first hit).  No proofs here.

   Names, keys and values are numbers.  A section has an optional "inherit" list, an optional
   "class" (id of the callable), an optional "inherit-only" flag and ordinary settings.
   Values are opaque codes: the harness uses typed keys (str, bool, list) and lets code 0 stand
   for the FALSY rendered value of the key's type ("" / False / []) and 1..99 for truthy ones.
   The first hit returns the value whatever it is — the model never inspects a value. *)
From Coq Require Import List NArith ZArith Bool Arith.
Import ListNotations.
From Verif Require Import Base.Val C42.Model_C42.   (* split_on, byte-string literals *)

Record section := {
  s_inh : option (list N);          (* "inherit": None = key absent *)
  s_class : option N;               (* "class" *)
  s_ionly : option bool;            (* "inherit-only" *)
  s_keys : list (N * N)             (* ordinary settings: key -> value *)
}.
Definition source := list (N * section).      (* one config source: name -> section (a dict) *)
Definition env := list source.                (* config sources in the order they were given *)
Definition node := (N * list section)%type.   (* an entry of slist: (name, section stack) *)

Fixpoint assoc {A} (n : N) (l : list (N * A)) : option A :=
  match l with
  | [] => None
  | (k, v) :: r => if N.eqb n k then Some v else assoc n r
  end.

(* sections_lookup[name]: `appendleft` per source, so LATER sources come first; [] = no entry *)
Definition stack_of (e : env) (n : N) : list section :=
  fold_left (fun acc src => match assoc n src with Some s => s :: acc | None => acc end) e [].

Definition inherits (st : list section) : list N :=
  match st with
  | s :: _ => match s_inh s with Some l => l | None => [] end
  | [] => []
  end.
Definition memN (x : N) (l : list N) : bool := existsb (N.eqb x) l.

Inductive err := ESelf (n : N) | ERec (n : N) | EMissing (n : N) | ENoSection | EInheritOnly | ENoClass | EFuel.

(* the `for inherit in inherits:` loop for one slist entry (cur, st): returns the grown set of
   inherited names and the entries appended to slist, or the error raised *)
Fixpoint scan_inh (e : env) (cur : N) (st : list section) (inh : list N)
                  (names : list N) (acc : list node) : err + (list N * list node) :=
  match inh with
  | [] => inr (names, acc)
  | i :: r =>
      if N.eqb i cur then                                   (* self-inherit: rest of the stack *)
        match tl st with
        | [] => inl (ESelf i)
        | st' => scan_inh e cur st r names (acc ++ [(i, st')])
        end
      else if memN i names then inl (ERec i)
      else match stack_of e i with
           | [] => inl (EMissing i)
           | t => scan_inh e cur st r (i :: names) (acc ++ [(i, t)])
           end
  end.

(* `for current_section, section_stack in slist:` with slist growing while iterated.
   [queue] = the not yet visited part of slist, [out] = the visited part. *)
Fixpoint bfs (fuel : nat) (e : env) (queue : list node) (names : list N) (out : list node)
  : err + list node :=
  match queue with
  | [] => inr out
  | (cur, st) :: q =>
      match fuel with
      | O => inl EFuel
      | S f =>
          match scan_inh e cur st (inherits st) names [] with
          | inl x => inl x
          | inr (names', new) => bfs f e (q ++ new) names' (out ++ [(cur, st)])
          end
      end
  end.

Fixpoint first_some {A B} (f : A -> option B) (l : list A) : option B :=
  match l with
  | [] => None
  | x :: r => match f x with Some v => Some v | None => first_some f r end
  end.
Definition head_sec (nd : node) : section :=
  match snd nd with s :: _ => s | [] => {| s_inh := None; s_class := None; s_ionly := None; s_keys := [] |} end.

(* generous fuel: (number of names + 1) * (L+1)^S, L = longest inherit list, S = number of sources *)
Definition max_inh (e : env) : nat :=
  fold_left (fun m src => fold_left (fun m' ns => Nat.max m' (length (inherits [snd ns]))) src m) e O.
Definition n_names (e : env) : nat := fold_left (fun m src => m + length src)%nat e O.
Definition fuel_of (e : env) : nat := (S (n_names e)) * Nat.pow (S (max_inh e)) (S (length e)).

(* collapse_named_section(name) -> (class id, settings lookup) *)
Definition collapse (e : env) (name : N) : err + (N * (N -> option N)) :=
  match stack_of e name with
  | [] => inl ENoSection
  | s0 :: rest =>
      let st := s0 :: rest in
      match s_ionly s0 with
      | Some true => inl EInheritOnly
      | _ =>
          match bfs (fuel_of e) e [(name, st)] [name] [] with
          | inl x => inl x
          | inr order =>
              match first_some (fun nd => s_class (head_sec nd)) order with
              | None => inl ENoClass
              | Some c => inr (c, fun k => first_some (fun nd => assoc k (s_keys (head_sec nd))) order)
              end
          end
      end
  end.

(* ------------------------------------------------------------------ decoding / encoding for the harness
   case text:  source ("|" source)* "@" names
     source  = section (";" section)*          (may be empty)
     section = NAME "," INH "," CLASS IONLY "," KV*      single characters:
               NAME a name;  INH = "-" (no inherit key) or a possibly empty run of names;
               CLASS "-" | "0" | "1";  IONLY "-" | "t" | "f";  KV = key char + two digits
     names   = the section names to collapse, one character each *)
Definition digit (c : N) : N := (c - 48)%N.
Fixpoint dec_kvs (l : str) : list (N * N) :=
  match l with
  | k :: d1 :: d2 :: r => (k, digit d1 * 10 + digit d2)%N :: dec_kvs r
  | _ => []
  end.
Definition dec_section (s : str) : option (N * section) :=
  match split_on 44 s with
  | [[n]; inh; [c; io]; kvs] =>
      Some (n, {| s_inh := match inh with [45%N] => None | l => Some l end;
                  s_class := if N.eqb c 45 then None else Some (digit c);
                  s_ionly := if N.eqb io 116 then Some true else if N.eqb io 102 then Some false else None;
                  s_keys := dec_kvs kvs |})
  | _ => None
  end.
Definition dec_source (s : str) : source :=
  flat_map (fun x => match dec_section x with Some p => [p] | None => [] end) (split_on 59 s).
Definition dec_case (b : bstr) : env * list N :=
  match split_on 64 (s2l b) with
  | [e; names] => (map dec_source (split_on 124 e), names)
  | _ => ([], [])
  end.

Definition two_digits (v : N) : str := [48 + v / 10; 48 + v mod 10]%N.
Definition query_keys : list N := [119; 120; 121; 122]%N.      (* w x y z *)
(* result text per name: "c" CLASS then per query key two digits or "--";  or "E" kind [name] *)
Definition show_err (x : err) : str :=
  match x with
  | ESelf n => [69; 115; n]          (* Es<name>: Self-inherit cannot be found *)
  | ERec n => [69; 114; n]           (* Er<name>: Inherit is recursive *)
  | EMissing n => [69; 109; n]       (* Em<name>: Inherit target cannot be found *)
  | ENoSection => [69; 110]          (* En: no section called *)
  | EInheritOnly => [69; 105]        (* Ei: cannot collapse inherit-only section *)
  | ENoClass => [69; 99]             (* Ec: no class specified *)
  | EFuel => [69; 102]
  end%N.
Definition show_result (r : err + (N * (N -> option N))) : str :=
  match r with
  | inl x => show_err x
  | inr (c, cfg) =>
      [99; 48 + c]%N ++ flat_map (fun k => match cfg k with Some v => two_digits v | None => [45; 45]%N end) query_keys
  end.
Definition run_collapse (b : bstr) : val :=
  let '(e, names) := dec_case b in
  VS (join 124 (map (fun n => show_result (collapse e n)) names)).
