(* Prop_C38.v — the property theorems of C38 and nothing else.
   All of them quantify over EVERY text / line over the full code-point alphabet (str = list N),
   every atom predicate [aof] and every suggestion function; [isspace] / [is_lb] are Python's
   str.isspace and str.splitlines classes (checked against the interpreter for every code
   point on each run). *)
From Coq Require Import List NArith ZArith Bool.
Import ListNotations.
From Verif Require Import Base.Val C38.Model_C38 C38.Spec_C38 C38.Proofs_C38.

(* parsing a package list and rendering it back reproduces the text exactly *)
Theorem render_parse_id : forall (aof : str -> option str) (t : str) (es : list entry),
  parse aof t = Ok es -> render es = t.
Proof. exact render_parse_id_proof. Qed.
Print Assumptions render_parse_id.

(* building a list from (spec, keywords) entries parses back to those entries (and no comments) *)
Theorem build_parse : forall (aof : str -> option str) (es : list (str * list str)),
  Forall (fun x => wf_tok (fst x) /\ Forall wf_tok (snd x) /\ aof (fst x) <> None) es ->
  exists ents, parse aof (build es) = Ok ents /\
               map (fun e => (pkg e, keywords e, comment e)) ents
               = map (fun x => (aof (fst x), snd x, [])) es.
Proof. exact build_parse_proof. Qed.
Print Assumptions build_parse.

(* with_keywords on any parsed line: a line without a spec is returned unchanged; otherwise the
   result is  prefix ++ [one space if the line had no keywords] ++ " ".join(ks) ++ suffix  where
   raw = prefix ++ keyword-region ++ suffix is the decomposition of the ORIGINAL line fixed by
   Spec_C38.kw_region, every other field is kept, and (for well-formed ks) parsing the new
   line again yields exactly that entry: same spec, comment, line ending, the new keywords *)
Theorem with_keywords_local : forall (aof : str -> option str) (t : str) (n : N) (line : str)
                                     (e : entry) (ks : list str),
  In line (splitlines t) -> parse_line aof n line = Ok e ->
  (pkg e = None -> with_keywords e ks = e) /\
  (pkg e <> None ->
   exists pfx mid sfx,
     kw_region e pfx mid sfx /\
     with_keywords e ks = rewritten e pfx sfx ks /\
     (Forall wf_tok ks ->
      parse_line aof n (raw (with_keywords e ks) ++ eol (with_keywords e ks)) = Ok (with_keywords e ks))).
Proof. exact with_keywords_local_proof. Qed.
Print Assumptions with_keywords_local.

(* what the keyword loop of expand computes for one line, and exactly when it refuses *)
Theorem sentinel_meaning : forall (sug : list str) (prev : option (list str)) (ks : list str),
  expand_kws sug prev (more_than_one ks) ks =
  if refused prev ks then inl (match prev with None => 1 | Some _ => 2 end)%N
  else inr (expansion sug prev ks).
Proof. exact sentinel_meaning_proof. Qed.
Print Assumptions sentinel_meaning.

(* expand: the result is the rendering of entries that are line by line in the frame relation
   with the parsed input: same lineno/spec/comment/line ending; a line without sentinels is
   identical; a changed line differs from the original only inside its keyword region; and the
   keywords are the declared meaning of the sentinels *)
Theorem expand_frame : forall (aof : str -> option str) (suggest : str -> list str) (t t' : str),
  expand_text aof suggest t = Ok t' ->
  exists es es', parse aof t = Ok es /\ render es = t /\ render es' = t' /\
                 Forall2 line_frame es es' /\
                 map keywords es' = expected_kws suggest None es.
Proof. exact expand_frame_proof. Qed.
Print Assumptions expand_frame.

(* with well-formed suggestions the EXPANDED TEXT parses again (str.splitlines breaks it at the
   same places) into exactly those entries: every line keeps its number, spec, comment and line
   ending, lines without sentinels are identical, changed lines differ only inside the keyword
   region, and the keywords are the declared meaning of the sentinels *)
Theorem expand_reparse : forall (aof : str -> option str) (suggest : str -> list str) (t t' : str),
  (forall p, Forall wf_tok (suggest p)) ->
  expand_text aof suggest t = Ok t' ->
  exists es es', parse aof t = Ok es /\ parse aof t' = Ok es' /\
                 Forall2 line_frame es es' /\
                 map keywords es' = expected_kws suggest None es.
Proof. exact expand_reparse_proof. Qed.
Print Assumptions expand_reparse.
