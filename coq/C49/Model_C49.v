(* Model_C49.v — executable model of metadata generation for one ebuild:
     data/lib/pkgcore/ebd/ebuild-default-functions.bash  inherit()            (:172)
     data/lib/pkgcore/ebd/ebuild.bash                    __load_ebuild (:258), __dump_metadata_keys (:500)
     src/pkgcore/ebuild/ebuild_src.py                    package_factory._update_metadata (:529)
   for the METADATA-RELEVANT bash subset: an ebuild / eclass is a sequence of
     VAR="t1 t2 .."   VAR+=" t1 t2 .."   unset VAR   f() { :; } (or EXPORT_FUNCTIONS)   inherit e1 e2 ..
   Values are whitespace separated token lists (tokens are abstract ids); the inherit TREE is
   explicit (an [Inherit] carries the bodies of the eclasses it sources, as resolved by the
   eclass cache).  No proofs here.

   bash facts the model transcribes (bug-compatible):
   * inherit() declares `local IUSE REQUIRED_USE DEPEND RDEPEND PDEPEND BDEPEND IDEPEND`
     (+ PROPERTIES RESTRICT when PKGCORE_ACCUMULATE_PROPERTIES_RESTRICT), `unset -v`s them before
     each eclass, sources the eclass two function calls deeper (__internal_inherit, __qa_invoke),
     then appends a non-empty value to E_<VAR>.
   * bash scoping is dynamic: an assignment binds the nearest enclosing frame that has the
     variable; `unset` executed in a DEEPER function than the frame owning the variable REMOVES
     that local and uncovers the caller's variable, while `unset` in the owning function keeps an
     unset local placeholder.
   * __load_ebuild: RDEPEND=${DEPEND} when RDEPEND is unset and EAPI is in the default list,
     then VAR+=${VAR:+ }${E_VAR}.
   * variables are independent of each other, so the interpreter is run once per variable
     ([exec_prog v loc]); `loc` says whether inherit() localises v under this EAPI. *)
From Coq Require Import List NArith ZArith Bool.
Import ListNotations.
From Verif Require Import Base.Val gen.Tables_C49.

Definition tok := N.
Definition value := list tok.
Definition var := N.

(* variable ids, as in Tables_C49 *)
Definition vIUSE : var := 0%N.        Definition vREQUIRED_USE : var := 1%N.
Definition vDEPEND : var := 2%N.      Definition vRDEPEND : var := 3%N.
Definition vPDEPEND : var := 4%N.     Definition vBDEPEND : var := 5%N.
Definition vIDEPEND : var := 6%N.     Definition vPROPERTIES : var := 7%N.
Definition vRESTRICT : var := 8%N.
Definition all_vars : list var := [0;1;2;3;4;5;6;7;8;9;10;11;12;13;14]%N.

Inductive op : Type :=
| Assign (v : var) (x : value)          (* VAR="x"   *)
| Append (v : var) (x : value)          (* VAR+=" x" *)
| Unset (v : var)                       (* unset VAR *)
| DefPhase (f : str)                    (* f() { :; }  /  EXPORT_FUNCTIONS *)
| Inherit (es : ecls)                   (* inherit e1 e2 .. *)
with prog : Type :=
| PNil
| PCons (o : op) (p : prog)
with ecls : Type :=
| ENil
| ECons (name : N) (body : prog) (rest : ecls).

(* short constructors for the generated cases files *)
Definition A := Assign. Definition P := Append. Definition U := Unset.
Definition F := DefPhase. Definition I := Inherit.
Fixpoint mkprog (l : list op) : prog := match l with [] => PNil | o :: r => PCons o (mkprog r) end.
Fixpoint mkecls (l : list (N * prog)) : ecls :=
  match l with [] => ENil | (n, b) :: r => ECons n b (mkecls r) end.

(* ------------------------------------------------------------------ EAPI tables *)
Fixpoint assocN {B} (k : N) (l : list (N * B)) : option B :=
  match l with [] => None | (k', b) :: r => if N.eqb k k' then Some b else assocN k r end.
Definition memN (x : N) (l : list N) : bool := existsb (N.eqb x) l.

Definition accum_pr (eapi : N) : bool :=
  match assocN eapi accum_pr_table with Some b => b | None => false end.
Definition metadata_keys (eapi : N) : list var :=
  match assocN eapi metadata_keys_table with Some l => l | None => [] end.
Definition phases (eapi : N) : list (str * str) :=
  match assocN eapi phases_table with Some l => l | None => [] end.
Definition rdepend_default (eapi : N) : bool := memN eapi rdepend_default_eapis.

(* does inherit() declare v local (and accumulate it) under this EAPI *)
Definition localised (eapi : N) (v : var) : bool :=
  N.ltb v 7 || (accum_pr eapi && (N.eqb v vPROPERTIES || N.eqb v vRESTRICT)).

(* ------------------------------------------------------------------ one variable's scopes *)
(* a frame of inherit(): None = this frame has no binding (removed by a deeper unset);
   Some None = local, unset; Some (Some x) = local with value x *)
Definition cell := option (option value).
Record st := { locals : list cell;          (* innermost inherit() frame first *)
               glob : option value;         (* the global (ebuild-level) variable *)
               acc : value }.               (* E_<VAR> *)
Definition st0 : st := {| locals := []; glob := None; acc := [] |}.

Definition valof (o : option value) : value := match o with Some x => x | None => [] end.

Fixpoint lookup (ls : list cell) (g : option value) : option value :=
  match ls with [] => g | Some b :: _ => b | None :: r => lookup r g end.

(* replace the first bound frame by [c]; None when no frame binds the variable *)
Fixpoint upd_first (ls : list cell) (c : cell) : option (list cell) :=
  match ls with
  | [] => None
  | Some _ :: r => Some (c :: r)
  | None :: r => match upd_first r c with Some r' => Some (None :: r') | None => None end
  end.

Definition do_assign (x : value) (s : st) : st :=
  match upd_first (locals s) (Some (Some x)) with
  | Some ls => {| locals := ls; glob := glob s; acc := acc s |}
  | None => {| locals := locals s; glob := Some x; acc := acc s |}
  end.
Definition do_append (x : value) (s : st) : st :=
  do_assign (match lookup (locals s) (glob s) with Some c => c ++ x | None => x end) s.
(* `unset` run by ebuild/eclass code: always deeper than any inherit() frame *)
Definition do_unset_deep (s : st) : st :=
  match upd_first (locals s) None with
  | Some ls => {| locals := ls; glob := glob s; acc := acc s |}
  | None => {| locals := locals s; glob := None; acc := acc s |}
  end.
(* inherit()'s own `unset -v` (runs in the innermost frame) *)
Definition do_unset_here (s : st) : st :=
  match locals s with
  | Some _ :: r => {| locals := Some None :: r; glob := glob s; acc := acc s |}
  | None :: r =>
      let s' := do_unset_deep {| locals := r; glob := glob s; acc := acc s |} in
      {| locals := None :: locals s'; glob := glob s'; acc := acc s' |}
  | [] => {| locals := []; glob := None; acc := acc s |}
  end.
Definition push (s : st) : st := {| locals := Some None :: locals s; glob := glob s; acc := acc s |}.
Definition pop (s : st) : st := {| locals := tl (locals s); glob := glob s; acc := acc s |}.
Definition is_nil {X} (l : list X) : bool := match l with [] => true | _ => false end.
(* [[ -n ${VAR} ]] && E_VAR+=${E_VAR:+ }${VAR} *)
Definition accumulate (s : st) : st :=
  let x := valof (lookup (locals s) (glob s)) in
  if is_nil x then s else {| locals := locals s; glob := glob s; acc := acc s ++ x |}.

Fixpoint exec_op (v : var) (loc : bool) (o : op) (s : st) {struct o} : st :=
  match o with
  | Assign w x => if N.eqb w v then do_assign x s else s
  | Append w x => if N.eqb w v then do_append x s else s
  | Unset w => if N.eqb w v then do_unset_deep s else s
  | DefPhase _ => s
  | Inherit es => if loc then pop (exec_ecls v loc es (push s)) else exec_ecls v loc es s
  end
with exec_prog (v : var) (loc : bool) (p : prog) (s : st) {struct p} : st :=
  match p with
  | PNil => s
  | PCons o p' => exec_prog v loc p' (exec_op v loc o s)
  end
with exec_ecls (v : var) (loc : bool) (es : ecls) (s : st) {struct es} : st :=
  match es with
  | ENil => s
  | ECons _ body r =>
      let s1 := if loc then do_unset_here s else s in
      let s2 := exec_prog v loc body s1 in
      let s3 := if loc then accumulate s2 else s2 in
      exec_ecls v loc r s3
  end.

(* ------------------------------------------------------------------ __load_ebuild *)
Definition run_var (eapi : N) (v : var) (p : prog) : st := exec_prog v (localised eapi v) p st0.

(* the ebuild-level variable after sourcing and the RDEPEND default *)
Definition own_final (eapi : N) (v : var) (p : prog) : option value :=
  let g := glob (run_var eapi v p) in
  if N.eqb v vRDEPEND && rdepend_default eapi then
    match g with
    | None => Some (valof (glob (run_var eapi vDEPEND p)))
    | Some _ => g
    end
  else g.

(* VAR+=${VAR:+ }${E_VAR} for the localised ones *)
Definition final_value (eapi : N) (v : var) (p : prog) : value :=
  if localised eapi v then valof (own_final eapi v p) ++ acc (run_var eapi v p)
  else valof (own_final eapi v p).

(* __dump_metadata_keys + _update_metadata wipes: keys of this EAPI with a non-empty value *)
Definition metadata (eapi : N) (p : prog) : list (var * value) :=
  filter (fun kv => negb (is_nil (snd kv)))
         (map (fun v => (v, final_value eapi v p)) (metadata_keys eapi)).

(* ------------------------------------------------------------------ INHERIT / INHERITED *)
Fixpoint ecl_names (es : ecls) : list N :=
  match es with ENil => [] | ECons n _ r => n :: ecl_names r end.
(* INHERIT+=" $@" at depth 1 only *)
Fixpoint direct_inherits (p : prog) : list N :=
  match p with
  | PNil => []
  | PCons (Inherit es) p' => ecl_names es ++ direct_inherits p'
  | PCons _ p' => direct_inherits p'
  end.
(* INHERITED+=" ${ECLASS}" after the eclass (and whatever it inherits) has been sourced *)
Fixpoint inherited_op (o : op) : list N :=
  match o with Inherit es => inherited_ecls es | _ => [] end
with inherited_prog (p : prog) : list N :=
  match p with PNil => [] | PCons o p' => inherited_op o ++ inherited_prog p' end
with inherited_ecls (es : ecls) : list N :=
  match es with ENil => [] | ECons n b r => inherited_prog b ++ [n] ++ inherited_ecls r end.

(* OrderedFrozenSet: first occurrences *)
Fixpoint dedup_from (seen : list N) (l : list N) : list N :=
  match l with
  | [] => []
  | x :: r => if memN x seen then dedup_from seen r else x :: dedup_from (x :: seen) r
  end.
Definition dedup := dedup_from [].
Definition inherited (p : prog) : list N := dedup (inherited_prog p).    (* pkg.inherited *)
Definition inherit_direct (p : prog) : list N := dedup (direct_inherits p). (* pkg.inherit *)

(* ------------------------------------------------------------------ DEFINED_PHASES *)
Fixpoint funcs_op (o : op) : list str :=
  match o with DefPhase f => [f] | Inherit es => funcs_ecls es | _ => [] end
with funcs_prog (p : prog) : list str :=
  match p with PNil => [] | PCons o p' => funcs_op o ++ funcs_prog p' end
with funcs_ecls (es : ecls) : list str :=
  match es with ENil => [] | ECons _ b r => funcs_prog b ++ funcs_ecls r end.
Definition mem_str (f : str) (l : list str) : bool := existsb (str_eqb f) l.
(* bash: for phase in PKGCORE_EBUILD_PHASES: __is_function && phases+=..; python: map through
   phases_rev, sort.  The table is sorted by short name, so filtering it is the sorted result. *)
Definition defined_phases (eapi : N) (p : prog) : list str :=
  map fst (filter (fun sf => mem_str (snd sf) (funcs_prog p)) (phases eapi)).
Definition dash : str := [45]%N.
Definition defined_phases_key (eapi : N) (p : prog) : list str :=
  match defined_phases eapi p with [] => [dash] | l => l end.

(* ------------------------------------------------------------------ encoders for the harness *)
Fixpoint insertN (x : N) (l : list N) : list N :=
  match l with [] => [x] | y :: r => if N.leb x y then x :: l else y :: insertN x r end.
Definition sortN (l : list N) : list N := fold_right insertN [] l.
Definition enc_nlist (l : list N) : val := VL (map (fun x => VZ (Z.of_N x)) l).

(* result: [ [[key, sorted tokens] ..] ; sorted inherited ; sorted inherit ; DEFINED_PHASES tokens ] *)
Definition run_meta (i : N * prog) : val :=
  let '(eapi, p) := i in
  VL [ VL (map (fun kv => VL [VZ (Z.of_N (fst kv)); enc_nlist (sortN (snd kv))]) (metadata eapi p));
       enc_nlist (sortN (inherited p));
       enc_nlist (sortN (inherit_direct p));
       VL (map VS (defined_phases_key eapi p)) ].
