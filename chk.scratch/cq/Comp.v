From Coq Require Import List NArith ZArith Bool Arith Lia.
Import ListNotations.
From Verif Require Import Base.Val C17.Model_C17 C17.Spec_C17 C17.Proofs_C17.
Arguments memN : simpl never.

Lemma count_filter_last' {A} (eqb : A -> A -> bool) (Hr : reflects eqb) x y l :
  count eqb x l = 1 ->
  count eqb y (filter (fun z => negb (eqb x z)) l ++ [x]) = count eqb y l.
Proof.
  intros H1. rewrite (count_app eqb), (count_filter_ne eqb Hr). cbn.
  destruct (eqb x y) eqn:H.
  - apply Hr in H. subst. rewrite (eqb_refl' eqb Hr). lia.
  - rewrite (eqb_sym' eqb Hr), H. lia.
Qed.

Section Compound.
Variable E : env.

Lemma count_blockers_of e l :
  count trip_eqb e l <> 0 -> count N.eqb (fst (snd e)) (blockers_of l) <> 0.
Proof.
  intros H. apply (count_In trip_eqb trip_reflects) in H.
  apply (count_In N.eqb N_reflects). unfold blockers_of. apply in_map_iff. exists e. auto.
Qed.

Lemma rb_of_nonnil c bk s : count trip_eqb (c, bk) (rb s) <> 0 -> is_nil (rb_of c s) = false.
Proof.
  intros H. apply (count_In trip_eqb trip_reflects) in H. unfold rb_of.
  assert (Hin : In bk (map snd (filter (fun e : N * (N * N) => N.eqb (fst e) c) (rb s)))).
  { apply in_map_iff. exists (c, bk). split; [reflexivity|]. apply filter_In. split; [exact H|].
    cbn. apply N.eqb_refl. }
  destruct (map snd _); [destruct Hin | reflexivity].
Qed.

(* one decref: explicit effect *)
Lemma decref_apply_ok s c b k : Inv E s -> count trip_eqb (c, (b, k)) (rb s) <> 0 ->
  exists s', decref_apply c b k s = (s', Ok tt) /\
    plan s' = plan s ++ [ODecref c b k] /\ slots s' = slots s /\ pc s' = pc s /\ vf s' = vf s /\
    fr s' = fr s /\ rb s' = remove1 trip_eqb (c, (b, k)) (rb s) /\
    brc s' = remove1 N.eqb b (brc s) /\
    lims s' = (if memN b (remove1 N.eqb b (brc s)) then lims s
               else filter (fun kb => negb (pair_eqb (k, b) kb)) (lims s)).
Proof.
  intros HI Hin.
  assert (Hb : memN b (brc s) = true).
  { rewrite memN_count, (I_brc E s HI). pose proof (count_blockers_of _ _ Hin) as H. cbn in H.
    destruct (count N.eqb b (blockers_of (rb s))); [contradiction | reflexivity]. }
  assert (Hk : k = bkey E b) by (eapply (I_rbkey E s HI); eauto).
  unfold decref_apply, bind, plan_append, modify, brc_remove, gets. cbn. rewrite Hb. cbn.
  destruct (memN b (remove1 N.eqb b (brc s))) eqn:Hb'; cbn.
  - unfold rb_remove. cbn. unfold rb_of. cbn. fold (rb_of c s).
    rewrite (rb_of_nonnil c (b, k) s Hin).
    rewrite (existsb_count trip_eqb). destruct (count trip_eqb (c, (b, k)) (rb s)) eqn:Hc; [contradiction|].
    cbn. eexists. split; [reflexivity|]. cbn. repeat split; reflexivity.
  - unfold remove_limiter. cbn.
    assert (Hl : existsb (pair_eqb (k, b)) (lims s) = true).
    { rewrite (existsb_count pair_eqb), (I_lims E s HI), Hb, Hk, N.eqb_refl. reflexivity. }
    rewrite Hl. cbn. unfold rb_remove. cbn. unfold rb_of. cbn. fold (rb_of c s).
    rewrite (rb_of_nonnil c (b, k) s Hin).
    rewrite (existsb_count trip_eqb). destruct (count trip_eqb (c, (b, k)) (rb s)) eqn:Hc; [contradiction|].
    cbn. eexists. split; [reflexivity|]. cbn. repeat split; reflexivity.
Qed.

Lemma memN_remove1_other b b0 l : N.eqb b b0 = false -> memN b0 (remove1 N.eqb b l) = memN b0 l.
Proof. intros H. rewrite !memN_count, (count_remove1 N.eqb N_reflects), H. reflexivity. Qed.

Lemma inv_decref_fields s s' c b k : Inv E s -> count trip_eqb (c, (b, k)) (rb s) <> 0 ->
  slots s' = slots s -> vf s' = vf s -> rb s' = remove1 trip_eqb (c, (b, k)) (rb s) ->
  brc s' = remove1 N.eqb b (brc s) ->
  lims s' = (if memN b (remove1 N.eqb b (brc s)) then lims s
             else filter (fun kb => negb (pair_eqb (k, b) kb)) (lims s)) ->
  Inv E s'.
Proof.
  intros HI Hin Hsl Hvf Hrb Hbrc Hli. pose proof HI as [J1 J2 J3 J4 J5 J6].
  assert (Hk : k = bkey E b) by (eapply J5; eauto).
  constructor; intros.
  - rewrite Hsl. apply J1.
  - rewrite Hsl in *. apply J2; assumption.
  - rewrite Hbrc, Hrb, (count_remove1 N.eqb N_reflects). unfold blockers_of.
    pose proof (count_map_remove1 trip_eqb trip_reflects (fun e => fst (snd e)) (c, (b, k)) b0 (rb s) Hin) as Hm.
    cbn in Hm. specialize (J3 b0). unfold blockers_of in J3. rewrite (N.eqb_sym b0 b) in Hm.
    destruct (N.eqb b b0); lia.
  - rewrite Hli, Hbrc.
    destruct (N.eqb b b0) eqn:Hbb.
    + apply N.eqb_eq in Hbb. subst b0.
      destruct (memN b (remove1 N.eqb b (brc s))) eqn:Hb'.
      * rewrite J4. assert (Hb : memN b (brc s) = true).
        { rewrite memN_count, J3. pose proof (count_blockers_of _ _ Hin) as H. cbn in H.
          destruct (count N.eqb b (blockers_of (rb s))); [contradiction | reflexivity]. }
        rewrite Hb. reflexivity.
      * cbn. rewrite (count_filter_ne pair_eqb pair_reflects). unfold pair_eqb at 1. cbn.
        rewrite N.eqb_refl, andb_true_r. destruct (N.eqb k k0) eqn:Hkk; [reflexivity|].
        rewrite J4. rewrite <- Hk. rewrite (N.eqb_sym k0 k), Hkk, andb_false_r. reflexivity.
    + rewrite (memN_remove1_other b b0 _ Hbb).
      destruct (memN b (remove1 N.eqb b (brc s))); [apply J4|].
      rewrite (count_filter_ne pair_eqb pair_reflects). unfold pair_eqb at 1. cbn.
      rewrite Hbb, andb_false_r. apply J4.
  - rewrite Hrb, (count_remove1 trip_eqb trip_reflects) in H.
    eapply J5. destruct (trip_eqb (c, (b, k)) (c0, (b0, k0))); [|exact H].
    intros H0. rewrite H0 in H. cbn in H. contradiction.
  - rewrite Hvf. apply J6. rewrite <- Hsl. assumption.
Qed.

(* reverting the decref restores the observables *)
Lemma decref_revert_ok s s' c b k : Inv E s -> count trip_eqb (c, (b, k)) (rb s) <> 0 ->
  slots s' = slots s -> pc s' = pc s -> vf s' = vf s -> fr s' = fr s ->
  rb s' = remove1 trip_eqb (c, (b, k)) (rb s) -> brc s' = remove1 N.eqb b (brc s) ->
  lims s' = (if memN b (remove1 N.eqb b (brc s)) then lims s
             else filter (fun kb => negb (pair_eqb (k, b) kb)) (lims s)) ->
  exists s'', decref_revert E c b k s' = (s'', Ok tt) /\ obs_eq s'' s.
Proof.
  intros HI Hin Hsl Hpc Hvf Hfr Hrb Hbrc Hli. pose proof HI as [J1 J2 J3 J4 J5 J6].
  assert (Hk : k = bkey E b) by (eapply J5; eauto).
  assert (Hb : memN b (brc s) = true).
  { rewrite memN_count, J3. pose proof (count_blockers_of _ _ Hin) as H. cbn in H.
    destruct (count N.eqb b (blockers_of (rb s))); [contradiction | reflexivity]. }
  assert (Hcb : count N.eqb b (brc s) <> 0) by (apply count_mem; exact Hb).
  unfold decref_revert, bind, rb_append, modify, gets. cbn. rewrite Hbrc.
  destruct (memN b (remove1 N.eqb b (brc s))) eqn:Hb'; cbn.
  - eexists. split; [reflexivity|]. constructor; cbn; intros.
    + rewrite Hsl. reflexivity.
    + rewrite Hli. reflexivity.
    + rewrite Hpc. reflexivity.
    + rewrite Hrb, (count_app trip_eqb), (count_remove1 trip_eqb trip_reflects). cbn.
      destruct (trip_eqb (c, (b, k)) e) eqn:He.
      * apply trip_reflects in He. subst e. rewrite (eqb_refl' trip_eqb trip_reflects). lia.
      * rewrite (eqb_sym' trip_eqb trip_reflects), He. lia.
    + rewrite Hbrc, (count_app N.eqb), (count_remove1 N.eqb N_reflects). cbn.
      destruct (N.eqb b b0) eqn:He.
      * apply N.eqb_eq in He. subst b0. rewrite N.eqb_refl. lia.
      * rewrite N.eqb_sym, He. lia.
    + rewrite Hvf. reflexivity.
    + rewrite Hfr. reflexivity.
  - eexists. split; [reflexivity|]. constructor; cbn; intros.
    + rewrite Hsl. reflexivity.
    + rewrite Hli. apply (count_filter_last' pair_eqb pair_reflects).
      rewrite J4, Hb, Hk, N.eqb_refl. reflexivity.
    + rewrite Hpc. reflexivity.
    + rewrite Hrb, (count_app trip_eqb), (count_remove1 trip_eqb trip_reflects). cbn.
      destruct (trip_eqb (c, (b, k)) e) eqn:He.
      * apply trip_reflects in He. subst e. rewrite (eqb_refl' trip_eqb trip_reflects). lia.
      * rewrite (eqb_sym' trip_eqb trip_reflects), He. lia.
    + rewrite Hbrc, (count_app N.eqb), (count_remove1 N.eqb N_reflects). cbn.
      destruct (N.eqb b b0) eqn:He.
      * apply N.eqb_eq in He. subst b0. rewrite N.eqb_refl. lia.
      * rewrite N.eqb_sym, He. lia.
    + rewrite Hvf. reflexivity.
    + rewrite Hfr. reflexivity.
Qed.

Definition dops (c : N) (l : list (N * N)) : list op := map (fun bk => ODecref c (fst bk) (snd bk)) l.

Lemma decref_all_ok c : forall l s, Inv E s ->
  (forall e, count pair_eqb e l <= count trip_eqb (c, e) (rb s)) ->
  exists s1, decref_all c l s = (s1, Ok tt) /\ Inv E s1 /\
    plan s1 = plan s ++ dops c l /\
    slots s1 = slots s /\ pc s1 = pc s /\ vf s1 = vf s /\ fr s1 = fr s /\
    (forall t, obs_eq t s1 -> exists t', undo_seq E (rev (dops c l)) t = (t', Ok tt) /\ obs_eq t' s).
Proof.
  induction l as [|[b k] r IH]; intros s HI Hc.
  - exists s. cbn. split; [reflexivity|]. split; [exact HI|]. rewrite app_nil_r.
    repeat split; try reflexivity. intros t Ht. exists t. split; [reflexivity | exact Ht].
  - assert (Hin : count trip_eqb (c, (b, k)) (rb s) <> 0).
    { specialize (Hc (b, k)). cbn in Hc. rewrite (eqb_refl' pair_eqb pair_reflects) in Hc. lia. }
    destruct (decref_apply_ok s c b k HI Hin) as (s' & Hap & Hpl & Hsl & Hpc & Hvf & Hfr & Hrb & Hbrc & Hli).
    pose proof (inv_decref_fields s s' c b k HI Hin Hsl Hvf Hrb Hbrc Hli) as HI'.
    assert (Hc' : forall e, count pair_eqb e r <= count trip_eqb (c, e) (rb s')).
    { intros e. rewrite Hrb, (count_remove1 trip_eqb trip_reflects). specialize (Hc e). cbn in Hc.
      unfold trip_eqb at 1. cbn. rewrite N.eqb_refl. cbn.
      rewrite (eqb_sym' pair_eqb pair_reflects (b, k) e). destruct (pair_eqb e (b, k)); lia. }
    destruct (IH s' HI' Hc') as (s1 & Hall & HI1 & Hpl1 & Hsl1 & Hpc1 & Hvf1 & Hfr1 & Hundo).
    exists s1. cbn [decref_all]. unfold bind. rewrite Hap. split; [exact Hall|]. split; [exact HI1|].
    split; [rewrite Hpl1, Hpl, <- app_assoc; reflexivity|].
    split; [congruence|]. split; [congruence|]. split; [congruence|]. split; [congruence|].
    intros t Ht. cbn [dops map rev]. fold (dops c r). rewrite undo_seq_app.
    destruct (Hundo t Ht) as (t'' & Hu & Ho). rewrite Hu. cbn [undo_seq revert]. unfold bind.
    destruct (decref_revert_ok s s' c b k HI Hin Hsl Hpc Hvf Hfr Hrb Hbrc Hli) as (s'' & Hrv & Hos).
    destruct (decref_revert_rel E c b k t'' s' Ho) as [H1 H2]. rewrite Hrv in H1, H2.
    destruct (decref_revert E c b k t'') as [t3 [u|e]]; cbn [fst snd Rres] in H1, H2; [|contradiction].
    exists t3. split; [destruct u; reflexivity|]. eapply obs_trans; eauto.
Qed.

End Compound.
