import sys; p=sys.argv[1]; s=open(p).read()
a='            head = body[: tokens[0].end()] + (" " if keywords else "")\n'; assert a in s
s=s.replace(a,'            head = body[: tokens[0].end()]\n            if keywords:\n                head += " "\n')
a='                    keywords.extend(suggest(entry.pkg) or (NO_KEYWORDS,))\n'; assert a in s
s=s.replace(a,'                    suggested = list(suggest(entry.pkg))\n                    if not suggested:\n                        suggested = [NO_KEYWORDS]\n                    keywords.extend(suggested)\n')
a='            eol = line[len(raw) :]\n'; assert a in s
s=s.replace(a,'            eol = line.removeprefix(raw)\n')
a='        return PackageList("".join(x.raw + x.eol for x in expanded), bug_id=self.bug_id)'; assert a in s
s=s.replace(a,'        text = "".join(f"{x.raw}{x.eol}" for x in expanded)\n        return PackageList(text, bug_id=self.bug_id)')
open(p,'w').write(s)
