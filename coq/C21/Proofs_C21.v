(* C21 — lemmas and proofs. *)
From Coq Require Import List NArith ZArith Bool Arith Lia.
Import ListNotations.
From Verif Require Import Base.Val C22.Model_C22 C21.Model_C21 C21.Spec_C21.

Lemma seq_true a : str_eqb a a = true. Proof. apply str_eqb_refl. Qed.
Lemma seq_neq a b : a <> b -> str_eqb a b = false.
Proof. intro H. destruct (str_eqb a b) eqn:E; auto. apply str_eqb_eq in E. contradiction. Qed.

Lemma pm_get_del_other k q m : k <> q -> pm_get k (pm_del q m) = pm_get k m.
Proof.
  intro H. induction m as [|[k' n] m IH]; simpl; auto.
  destruct (str_eqb q k') eqn:E; simpl.
  - apply str_eqb_eq in E. subst. rewrite (seq_neq k k') by auto. exact IH.
  - destruct (str_eqb k k'); auto.
Qed.
Lemma pm_get_del_same k m : pm_get k (pm_del k m) = None.
Proof.
  induction m as [|[k' n] m IH]; simpl; auto.
  destruct (str_eqb k k') eqn:E; simpl; auto. rewrite E. exact IH.
Qed.
Lemma pm_get_set_other k q n m : k <> q -> pm_get k (pm_set q n m) = pm_get k m.
Proof.
  intro H. induction m as [|[k' n'] m IH]; simpl.
  - rewrite (seq_neq k q) by auto. reflexivity.
  - destruct (str_eqb q k') eqn:E; simpl.
    + apply str_eqb_eq in E. subst. rewrite (seq_neq k k') by auto. reflexivity.
    + destruct (str_eqb k k'); auto.
Qed.
Lemma pm_get_set_same k n m : pm_get k (pm_set k n m) = Some n.
Proof.
  induction m as [|[k' n'] m IH]; simpl.
  - rewrite seq_true. reflexivity.
  - destruct (str_eqb k k') eqn:E; simpl.
    + rewrite seq_true. reflexivity.
    + rewrite E. exact IH.
Qed.
Lemma pm_get_in k n m : pm_get k m = Some n -> In (k, n) m.
Proof.
  induction m as [|[k' n'] m IH]; simpl; [discriminate|].
  destruct (str_eqb k k') eqn:E.
  - apply str_eqb_eq in E. subst. intro H. inversion H. auto.
  - auto.
Qed.
Lemma pm_get_none_notin k m : pm_get k m = None <-> ~ In k (map fst m).
Proof.
  induction m as [|[k' n'] m IH]; simpl.
  - tauto.
  - destruct (str_eqb k k') eqn:E.
    + apply str_eqb_eq in E. subst. split; [discriminate|]. intro H. exfalso. apply H. auto.
    + rewrite IH. split.
      * intros H [H1|H1]; [subst; rewrite seq_true in E; discriminate | auto].
      * intros H H1. apply H. auto.
Qed.

(* unmerge only removes locations of its cset *)
Lemma unmerge_get fs cs k : ~ In k (map fst cs) -> pm_get k (unmerge_fs fs cs) = pm_get k fs.
Proof.
  unfold unmerge_fs. revert fs. induction cs as [|[q n] cs IH]; simpl; intros fs H; auto.
  rewrite IH by tauto.
  destruct n; auto; apply pm_get_del_other; intro; subst; apply H; auto.
Qed.
Lemma merge_get fs cs k : ~ In k (map fst cs) -> pm_get k (merge_fs fs cs) = pm_get k fs.
Proof.
  unfold merge_fs. revert fs. induction cs as [|[q n] cs IH]; simpl; intros fs H; auto.
  rewrite IH by tauto.
  destruct n; auto; apply pm_get_set_other; intro; subst; apply H; auto.
Qed.

Lemma live_of_in fs cs k n : In (k, n) (live_of fs cs) -> pm_get k fs = Some n.
Proof.
  unfold live_of. intro H. apply in_flat_map in H. destruct H as [[q m] [_ H]]. simpl in H.
  destruct (pm_get q fs) eqn:E; simpl in H; [|contradiction].
  destruct H as [H|[]]. inversion H. subst. exact E.
Qed.

(* ---------------------------------------------------------------- uninstall_keeps_modified *)
Lemma uninstall_set_spares prot ign off fs recorded inst P d :
  pm_get P fs = Some (File d) ->
  prot (strip_off off P) = true -> ign (strip_off off P) = false ->
  differs_from_recorded recorded P d ->
  ~ In P (map fst (uninstall_set prot ign off fs recorded inst)).
Proof.
  intros Hfs Hp Hi [r [Hr Hd]] Hin.
  apply in_map_iff in Hin. destruct Hin as [[k n] [Hk Hin]]. simpl in Hk. subst k.
  unfold uninstall_set in Hin. apply filter_In in Hin. destruct Hin as [Hin Hst].
  apply filter_In in Hin. destruct Hin as [Hin _].
  apply live_of_in in Hin. rewrite Hfs in Hin. inversion Hin. subst n.
  unfold stays in Hst. simpl in Hst. rewrite Hp, Hi, Hr, Hd in Hst. discriminate.
Qed.

Theorem uninstall_keeps_modified_proof :
  forall (prot ign : str -> bool) (off : str) (fs recorded inst : pmap) (P d : str),
    protected_file prot ign off fs P d ->
    differs_from_recorded recorded P d ->
    pm_get P (unmerge_fs fs (uninstall_set prot ign off fs recorded inst)) = Some (File d).
Proof.
  intros prot ign off fs recorded inst P d [Hf [Hp Hi]] Hd.
  rewrite unmerge_get; auto. eapply uninstall_set_spares; eauto.
Qed.
