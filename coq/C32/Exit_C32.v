(* C32 — PROOFS, part 2: which failure codes the bash side misreports (finding status-multiple-of-256). *)
From Coq Require Import List NArith ZArith Bool Lia String.
From Verif Require Import Base.Val C32.Model_C32 C32.Spec_C32 C32.Proofs_C32.
Import ListNotations.
Local Open Scope N_scope.

(* ------------------------------------------------------------------ decimal text round trip *)
Definition step10 (a c : N) : N := a * 10 + (c - 48).
Lemma num_app a b : num (a ++ b) = fold_left step10 b (num a).
Proof. unfold num. now rewrite fold_left_app. Qed.

Lemma digits_fuel_value f : forall n acc,
  n < 10 ^ N.of_nat f -> (0 < f)%nat ->
  exists pre, digits_fuel f n acc = pre ++ acc /\ num pre = n.
Proof.
  induction f as [|f IH]; intros n acc Hn Hf; [lia|].
  cbn [digits_fuel].
  assert (Hm : n mod 10 < 10) by (apply N.mod_upper_bound; discriminate).
  destruct (N.ltb_spec n 10) as [Hlt|Hge].
  - exists [48 + n mod 10]. split; [reflexivity|].
    rewrite N.mod_small by assumption. unfold num. cbn [fold_left]. lia.
  - assert (Hf' : (0 < f)%nat).
    { destruct f; [|lia]. cbn in Hn. lia. }
    assert (Hd : n / 10 < 10 ^ N.of_nat f).
    { apply N.div_lt_upper_bound; [discriminate|].
      rewrite Nat2N.inj_succ, N.pow_succ_r' in Hn. exact Hn. }
    destruct (IH (n / 10) ((48 + n mod 10) :: acc) Hd Hf') as [pre [E Hp]].
    exists (pre ++ [48 + n mod 10]). split; [rewrite E; now rewrite <- app_assoc|].
    rewrite num_app. cbn [fold_left]. unfold step10. rewrite Hp.
    assert (Hdm : n = 10 * (n / 10) + n mod 10) by (apply N.div_mod; discriminate).
    generalize dependent (n / 10). generalize dependent (n mod 10). intros. lia.
Qed.

Lemma pos_lt_pow2 p : N.pos p < 2 ^ N.of_nat (Pos.size_nat p).
Proof.
  induction p as [p IH|p IH|]; cbn [Pos.size_nat].
  - rewrite Nat2N.inj_succ, N.pow_succ_r'. lia.
  - rewrite Nat2N.inj_succ, N.pow_succ_r'. lia.
  - cbn. lia.
Qed.

Lemma N_lt_pow10 n : n < 10 ^ N.of_nat (S (N.size_nat n)).
Proof.
  destruct n as [|p]; [cbn; lia|]. cbn [N.size_nat].
  rewrite Nat2N.inj_succ, N.pow_succ_r'.
  pose proof (pos_lt_pow2 p).
  assert (2 ^ N.of_nat (Pos.size_nat p) <= 10 ^ N.of_nat (Pos.size_nat p)) by (apply N.pow_le_mono_l; lia).
  assert (0 < 10 ^ N.of_nat (Pos.size_nat p)) by (apply N.neq_0_lt_0, N.pow_nonzero; discriminate).
  lia.
Qed.

Lemma num_dec_N n : num (dec_N n) = n.
Proof.
  unfold dec_N. destruct (digits_fuel_value (S (N.size_nat n)) n [] (N_lt_pow10 n)) as [pre [E Hp]]; [lia|].
  rewrite E, app_nil_r. exact Hp.
Qed.

Lemma dec_N_digits n : forallb is_dig (dec_N n) = true.
Proof.
  apply forallb_forall. intros c Hc. apply dec_N_chars in Hc. unfold is_dig.
  apply andb_true_iff. split; apply N.leb_le; lia.
Qed.

Lemma dec_N_0 : dec_N 0 = [48].
Proof. reflexivity. Qed.
Lemma dec_N_is_zero n : dec_N n = [48] <-> n = 0.
Proof. split; [apply dec_N_zero|intros ->; reflexivity]. Qed.

(* ------------------------------------------------------------------ `return ${ret}` *)
Lemma exit_status_pos n : exit_status (dec_N n) = dec_N (n mod 256).
Proof.
  unfold exit_status.
  destruct (dec_N n) as [|c r] eqn:E; [exfalso; now apply (dec_N_nonempty n)|].
  assert (Hc : 48 <= c /\ c <= 57) by (apply (dec_N_chars n); rewrite E; now left).
  assert (Hd : forallb is_dig (c :: r) = true) by (rewrite <- E; apply dec_N_digits).
  assert (Hn : num (c :: r) = n) by (rewrite <- E; apply num_dec_N).
  destruct (N.eqb_spec c 45) as [->|Hne]; [lia|].
  replace (match c with 45 => _ | _ => _ end) with
      (if forallb is_dig (c :: r) then dec_N (num (c :: r) mod 256) else [50]).
  - now rewrite Hd, Hn.
  - destruct c as [|p]; [reflexivity|].
    do 6 (destruct p as [p|p|]; try reflexivity). all: try (exfalso; apply Hne; reflexivity).
Qed.

Lemma exit_status_neg p :
  exit_status (45 :: dec_N (N.pos p)) = dec_N ((256 - N.pos p mod 256) mod 256).
Proof.
  unfold exit_status.
  destruct (dec_N (N.pos p)) as [|c r] eqn:E; [exfalso; now apply (dec_N_nonempty (N.pos p))|].
  assert (Hd : forallb is_dig (c :: r) = true) by (rewrite <- E; apply dec_N_digits).
  assert (Hn : num (c :: r) = N.pos p) by (rewrite <- E; apply num_dec_N).
  cbn match. now rewrite Hd, Hn.
Qed.

Ltac Zify.zify_post_hook ::= Z.div_mod_to_equations.

(* what the caller of a nonfatal helper sees in $?: the code modulo 256 *)
Theorem caller_sees_code_mod_256_proof code :
  exit_status (dec_Z code) = dec_N (Z.to_N (code mod 256)).
Proof.
  destruct code as [|p|p]; cbn [dec_Z].
  - reflexivity.
  - change (dec_N (Z.to_N (Z.pos p))) with (dec_N (N.pos p)). rewrite exit_status_pos. f_equal.
    rewrite Z2N.inj_mod by lia. reflexivity.
  - rewrite exit_status_neg. f_equal. apply N2Z.inj.
    rewrite Z2N.id by (apply Z.mod_pos_bound; reflexivity).
    assert (Hm : N.pos p mod 256 < 256) by (apply N.mod_upper_bound; discriminate).
    rewrite N2Z.inj_mod, N2Z.inj_sub by lia. rewrite N2Z.inj_mod.
    change (Z.of_N (N.pos p)) with (Z.pos p). change (Z.of_N 256) with 256%Z.
    change (Z.neg p) with (- Z.pos p)%Z. lia.
Qed.

(* FINDING status-multiple-of-256, exactly: a failure code is taken for success by the caller iff it
   is a non-zero multiple of 256 *)
Theorem misreported_codes_proof code :
  code <> 0%Z -> (exit_status (dec_Z code) = [48] <-> (code mod 256 = 0)%Z).
Proof.
  intros _. rewrite caller_sees_code_mod_256_proof, dec_N_is_zero.
  pose proof (Z.mod_pos_bound code 256 eq_refl). lia.
Qed.

Theorem status_multiple_of_256_proof cmd code msg :
  code <> 0%Z ->
  let '(st, _, died) := bash_ipc_exit cmd true (bash_fields (encode_err code msg)) in
  died = false /\ st = dec_Z code /\ (exit_status st = [48] <-> (code mod 256 = 0)%Z).
Proof.
  intro Hc. pose proof (bash_exit_proof cmd true code msg Hc) as H.
  destruct (bash_ipc_exit cmd true (bash_fields (encode_err code msg))) as [[st out] died].
  destruct H as [-> ->]. repeat split; try (apply misreported_codes_proof; assumption).
Qed.

Example misreported_256 : exit_status (dec_Z 256) = [48] /\ exit_status (dec_Z 512) = [48]
                          /\ exit_status (dec_Z 255) = lit "255" /\ exit_status (dec_Z (-1)) = lit "255"
                          /\ exit_status (dec_Z 300) = lit "44".
Proof. vm_compute. repeat split. Qed.
