#!/bin/sh
# mutation self-test for C20: each mutation is applied on top of the two repairs in /tmp/wt_C20
WT=/tmp/wt_C20
LOG=/verif/chk.scratch/c20/mut.log
: > $LOG
reset() { git -C $WT checkout -q -- . && git -C $WT apply /verif/fixes/C20-1-uninstall-offset.patch && git -C $WT apply /verif/fixes/C20-2-remove-cset-resolved-paths.patch; }
run() {
  name="$1"; shift
  echo "=== $name" >> $LOG
  git -C $WT diff --stat | tail -1 >> $LOG
  ( cd /verif && VERIF_REPO=$WT ./check C20 > /verif/chk.scratch/c20/$name.out 2>&1; echo "exit=$?" >> $LOG )
  grep -E "^VIOLATION|^KNOWN|^\[C20\]" /verif/chk.scratch/c20/$name.out | cut -c1-260 >> $LOG
  reset
}
reset
# M1: unlink follows the symlink to its target
sed -i 's|        unlink_if_exists(x.location)|        unlink_if_exists(os.path.realpath(x.location))|' $WT/src/pkgcore/fs/ops.py; run M1_follow_symlink
# M2: directories no longer deepest-first
sed -i 's|    l.sort(reverse=True)|    l.sort()|' $WT/src/pkgcore/fs/ops.py; run M2_sort_order
# M3: /etc dropped from the protected list
sed -i '/^        "\/etc",$/d' $WT/src/pkgcore/merge/triggers.py; run M3_drop_etc
# M4: protection runs after the removal
sed -i 's|    priority = -100|    priority = 100|' $WT/src/pkgcore/merge/triggers.py; run M4_priority
# M5: protection ignores the offset
sed -i 's|uninstall.difference_update(pjoin(engine.offset, x) for x in self._block)|uninstall.difference_update("/" + x for x in self._block)|' $WT/src/pkgcore/merge/triggers.py; run M5_protect_no_offset
# M6: replace removes the whole old cset (shared entries too)
sed -i 's|        remove = csets\["old_cset"\].difference(install)|        remove = csets["old_cset"].clone()|' $WT/src/pkgcore/merge/engine.py; run M6_remove_shared
# M7: ENOTEMPTY no longer ignored
sed -i '/^                errno.ENOTEMPTY,$/d' $WT/src/pkgcore/fs/ops.py; run M7_enotempty
# M9: only regular files are unlinked
sed -i 's|    for x in iterate(cset.iterdirs(invert=True)):|    for x in iterate(cset.iterfiles()):|' $WT/src/pkgcore/fs/ops.py; run M9_only_regular
# M10: resolved-path guard compares against the unresolved install locations only
sed -i 's|        resolved = {realpath(x.location) for x in install}|        resolved = {x.location for x in install}|' $WT/src/pkgcore/merge/engine.py; run M10_guard_unresolved
# M11: off-by-one - the last protected name is skipped
sed -i 's|        self._block = tuple(x.lstrip("/") for x in preserve_sequence)|        self._block = tuple(x.lstrip("/") for x in preserve_sequence[:-1])|' $WT/src/pkgcore/merge/triggers.py; run M11_block_off_by_one
# H1: harmless refactoring (sorted(), helper variable, renamed loop variable)
python3 - <<'PY'
p="/tmp/wt_C20/src/pkgcore/fs/ops.py"
s=open(p).read()
old='''    l = list(iterate(cset.iterdirs()))
    l.sort(reverse=True)
    for x in l:
        try:
            os.rmdir(x.location)
'''
new='''    directories = sorted(iterate(cset.iterdirs()), reverse=True)
    for d in directories:
        x = d
        target = x.location
        try:
            os.rmdir(target)
'''
assert old in s
open(p,"w").write(s.replace(old,new))
PY
run H1_harmless
echo DONE >> $LOG
