(* Model_C36.v — executable model of pkgcore.fetch.custom.fetcher.fetch (custom.py:99) with
   pkgcore.fetch.base.fetcher._verify (base.py:15), as REPAIRED by
   fixes/C36-verify-after-last-attempt.patch (the file left by the last allowed attempt is
   verified after the loop).  The immediate `raise` on an oversized / wrong-checksum file is
   modelled as the code does it (known finding, see Proofs_C36.v).
   [fetch_legacy] is the loop of the unpatched tree, kept for the refutation witnesses and so
   that the harness can tell "the patch is not applied" from any other disagreement.
   No proofs here. *)
From Coq Require Import List NArith ZArith Bool.
Import ListNotations.
From Verif Require Import Base.Val.

Definition bytes := list N.
Definition file := option bytes.           (* None = no file at distdir/filename *)

(* fetchable.chksums: optional "size", hash entries (algorithm id, expected digest), and a
   flag for a checksum kind snakeoil has no handler for *)
Record target := { tsize : option N; thashes : list (N * N); tbad : bool }.

Definition nochk (T : target) : bool :=          (* `not target.chksums` *)
  match tsize T, thashes T with None, [] => negb (tbad T) | _, _ => false end.

(* what the external fetch command does to the file, and its exit status.
   Resume d = what `wget -c` does when the source is d: keep what is there, add the rest. *)
Inductive action := Leave | Write (d : bytes) | Append (d : bytes) | Resume (d : bytes) | Remove.
Definition act (a : action) (f : file) : file :=
  match a with
  | Leave => f
  | Write d => Some d
  | Append d => Some (match f with Some x => x ++ d | None => d end)
  | Resume d => Some (match f with Some x => x ++ skipn (length x) d | None => d end)
  | Remove => None
  end.
(* one fetcher outcome: behaviour when run as the fetch command / as the resume command *)
Record outcome := { ofetch : action * Z; oresume : action * Z }.
Definition idle : outcome := {| ofetch := (Leave, 0%Z); oresume := (Leave, 0%Z) |}.

Inductive cmd := CFetch | CResume.
Definition pick (o : outcome) (k : cmd) : action * Z :=
  match k with CFetch => ofetch o | CResume => oresume o end.

Inductive vres := VOk | VMissing | VSmall | VEmpty | VBig | VBad | VNoHandler.
Inductive err := EMissing | ESmall | EEmpty | EBig | EBad | ENoHandler | ENoUris | EUnknown.
Inductive result := RPath | RErr (e : err).

Record event := { ekind : cmd; euri : N; eseen : file; epost : file; estatus : Z }.

Section WithHash.
Variable H : N -> bytes -> N.          (* the checksum functions: algorithm id -> content -> digest *)

Definition hashes_ok (T : target) (d : bytes) : bool :=
  forallb (fun av => N.eqb (H (fst av) d) (snd av)) (thashes T).

(* base.fetcher._verify *)
Definition verify (T : target) (f : file) : vres :=
  if tbad T then VNoHandler else
  match tsize T with
  | Some n =>
      match f with
      | None => VMissing
      | Some d => let l := N.of_nat (length d) in
                  if N.eqb l n then (if hashes_ok T d then VOk else VBad)
                  else if N.ltb l n then VSmall else VBig
      end
  | None =>
      match f with
      | None => VMissing
      | Some [] => VEmpty
      | Some d => if hashes_ok T d then VOk else VBad
      end
  end.

Definition err_of (v : vres) : err :=
  match v with
  | VOk => EUnknown | VMissing => EMissing | VSmall => ESmall | VEmpty => EEmpty
  | VBig => EBig | VBad => EBad | VNoHandler => ENoHandler
  end.

(* the verification after the loop (the repair) *)
Definition final (T : target) (f : file) : result :=
  match verify T f with VOk => RPath | v => RErr (err_of v) end.

(* one pass of the loop body after a failed verification: which command, and the file after
   the unlink rule.  None = the exception is re-raised (ChksumFailure, handler errors). *)
Definition prep (v : vres) (f : file) : option (cmd * file) :=
  match v with
  | VMissing => Some (CFetch, f)
  | VSmall => Some (CResume, f)            (* resumable: kept, resume_command *)
  | VEmpty => Some (CFetch, None)          (* not resumable: unlinked, command *)
  | VOk | VBig | VBad | VNoHandler => None
  end.

(* the no-checksum rule: non-zero exit status and no checksums => discard the file *)
Definition settle (T : target) (st : Z) (f : file) : file :=
  if nochk T && negb (Z.eqb st 0) then None else f.

Definition run := (result * file * list event)%type.

(* resume_command=None: the fetch command is reused, so the program runs in its fetch role *)
Definition shown (hasres : bool) (k : cmd) : cmd := if hasres then k else CFetch.

Fixpoint loop (hasres : bool) (n : nat) (T : target) (uris : list N) (outs : list outcome) (f : file) : run :=
  match n with
  | O => (final T f, f, [])
  | S n' =>
      match verify T f with
      | VOk => (RPath, f, [])
      | v =>
          match prep v f with
          | None => (RErr (err_of v), f, [])
          | Some (k, f1) =>
              match uris with
              | [] => (RErr ENoUris, f1, [])
              | u :: us =>
                  let '(a, st) := pick (hd idle outs) (shown hasres k) in
                  let f2 := act a f1 in
                  let '(r, ff, ev) := loop hasres n' T us (tl outs) (settle T st f2) in
                  (r, ff, {| ekind := k; euri := u; eseen := f1; epost := f2; estatus := st |} :: ev)
              end
          end
      end
  end.

(* the unpatched loop: `raise last_exc` after the loop, no final verification *)
Fixpoint loop_legacy (hasres : bool) (n : nat) (T : target) (uris : list N) (outs : list outcome) (f : file)
                     (last : err) : run :=
  match n with
  | O => (RErr last, f, [])
  | S n' =>
      match verify T f with
      | VOk => (RPath, f, [])
      | v =>
          match prep v f with
          | None => (RErr (err_of v), f, [])
          | Some (k, f1) =>
              match uris with
              | [] => (RErr ENoUris, f1, [])
              | u :: us =>
                  let '(a, st) := pick (hd idle outs) (shown hasres k) in
                  let f2 := act a f1 in
                  let '(r, ff, ev) := loop_legacy hasres n' T us (tl outs) (settle T st f2) (err_of v) in
                  (r, ff, {| ekind := k; euri := u; eseen := f1; epost := f2; estatus := st |} :: ev)
              end
          end
      end
  end.

Record input := { attempts : nat; tgt : target; uris : list N; outs : list outcome;
                  file0 : file; has_resume : bool }.

Definition fetch (i : input) : run := loop (has_resume i) (attempts i) (tgt i) (uris i) (outs i) (file0 i).
Definition fetch_legacy (i : input) : run :=
  loop_legacy (has_resume i) (attempts i) (tgt i) (uris i) (outs i) (file0 i) EUnknown.

End WithHash.

(* ---------------------------------------------------------------- uri_list.__iter__
   (fetch/__init__.py:118): plain URIs, runs of (mirror, sub_uri) entries interleaved round
   robin over the mirrors' hosts, bare mirrors expanded with the file name. *)
Inductive usrc := UStr (u : str) | USub (hosts : list str) (sub : str) | UMirror (hosts : list str).

Definition slash : N := 47%N.
Fixpoint rstrip_slash (s : str) : str :=
  match s with
  | [] => []
  | c :: r => match rstrip_slash r with
              | [] => if N.eqb c slash then [] else [c]
              | r' => c :: r'
              end
  end.
Definition under (base tail : str) : str := rstrip_slash base ++ slash :: tail.

(* zip_longest over the groups, flattened, None dropped *)
Fixpoint heads (gs : list (list str)) : list str :=
  match gs with [] => [] | [] :: r => heads r | (x :: _) :: r => x :: heads r end.
Fixpoint tails (gs : list (list str)) : list (list str) :=
  match gs with [] => [] | [] :: r => tails r | (_ :: t) :: r => t :: tails r end.
Fixpoint round_robin (fuel : nat) (gs : list (list str)) : list str :=
  match fuel with
  | O => []
  | S k => match gs with [] => [] | _ => heads gs ++ round_robin k (tails gs) end
  end.
Definition total_len (gs : list (list str)) : nat := fold_right (fun g n => (length g + n)%nat) O gs.

(* split off the maximal run of USub entries at the head.  Bug-compatible: the generator
   expressions of __iter__ read `sub_uri` only when zip_longest consumes them, i.e. after the
   whole run has been scanned, so EVERY group of a run is expanded with the LAST entry's
   sub_uri ([sub]). *)
Fixpoint last_sub (l : list usrc) (dflt : str) : str :=
  match l with USub _ s :: r => last_sub r s | _ => dflt end.
Fixpoint take_subs (sub : str) (l : list usrc) : list (list str) * list usrc :=
  match l with
  | USub hs _ :: r => let '(g, rest) := take_subs sub r in (map (fun h => under h sub) hs :: g, rest)
  | _ => ([], l)
  end.

Fixpoint uri_iter_fuel (fuel : nat) (fname : str) (l : list usrc) : list str :=
  match fuel with
  | O => []
  | S k =>
      match l with
      | [] => []
      | UStr u :: r => u :: uri_iter_fuel k fname r
      | UMirror hs :: r => map (fun h => under h fname) hs ++ uri_iter_fuel k fname r
      | USub _ s :: _ =>
          let '(g, rest) := take_subs (last_sub l s) l in
          round_robin (S (total_len g)) g ++ uri_iter_fuel k fname rest
      end
  end.
Definition uri_iter (fname : str) (l : list usrc) : list str := uri_iter_fuel (S (length l)) fname l.

(* ---------------------------------------------------------------- encoders for the harness *)
(* an injective stand-in for the digests: base-257 numeral of the content, tagged with the
   algorithm.  The harness uses real sha256/md5 on the implementation side; both are
   injective on the contents a run uses. *)
Definition toyH (alg : N) (d : bytes) : N :=
  (fold_left (fun acc b => acc * 257 + b + 1) d 0 * 16 + alg)%N.

Definition s_ (l : list N) : str := l.
Definition kind_name (e : err) : str :=
  match e with
  | EMissing => s_ [77;105;115;115;105;110;103;68;105;115;116;102;105;108;101]   (* MissingDistfile *)
  | ESmall => s_ [84;111;111;83;109;97;108;108]                                 (* TooSmall *)
  | EEmpty => s_ [69;109;112;116;121]                                           (* Empty *)
  | EBig => s_ [67;104;107;115;117;109;83;105;122;101]                          (* ChksumSize *)
  | EBad => s_ [67;104;107;115;117;109;72;97;115;104]                           (* ChksumHash *)
  | ENoHandler => s_ [77;105;115;115;105;110;103;67;104;107;115;117;109;72;97;110;100;108;101;114]
                                                                                 (* MissingChksumHandler *)
  | ENoUris => s_ [78;111;77;111;114;101;85;114;105;115]                        (* NoMoreUris *)
  | EUnknown => s_ [82;117;110;116;105;109;101;69;114;114;111;114]              (* RuntimeError *)
  end%N.

Definition enc_file (f : file) : val := match f with None => VNone | Some d => VS d end.
Definition enc_result (r : result) : val :=
  match r with RPath => VB true | RErr e => VErr (kind_name e) end.
Definition enc_event (hasres : bool) (e : event) : val :=
  VL [VB (match ekind e with CResume => hasres | CFetch => false end);
      VZ (Z.of_N (euri e)); enc_file (eseen e); enc_file (epost e); VZ (estatus e)].
Definition enc_run (hasres : bool) (r : run) : val :=
  let '(res, ff, ev) := r in VL [enc_result res; enc_file ff; VL (map (enc_event hasres) ev)].

(* stream "fetch": result / final file / what each spawned command was, saw and left *)
Definition run_fetch (i : input) : val := enc_run (has_resume i) (fetch toyH i).
Definition run_fetch_legacy (i : input) : val := enc_run (has_resume i) (fetch_legacy toyH i).
(* stream "uris": the URIs a uri_list yields, in order *)
Definition run_uris (i : str * list usrc) : val := VL (map VS (uri_iter (fst i) (snd i))).
