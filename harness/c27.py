"""C27 — metadata cache entries round-trip and are replaced atomically (DESIGN §6 C27).

Streams (both layouts: flat_hash.database and flat_hash.md5_cache)
  ser     cache[cpv] = values: the text found in the entry file        impl vs Model_C27.serialize (A)
  rt      cache[cpv] = values; cache[cpv] on well-formed entries        impl vs parse∘serialize (A)
                                                                        impl vs Spec_C27.spec_roundtrip_ok (B, in Coq)
                                                                        + the same oracle in Python
  parse   cache[cpv] on valid / mutated / truncated / malformed files   impl vs Model_C27.parse (A)
  ops     the os-level mutating calls of one store (harness/fsx.py)     impl vs Model_C27.store_ops (A)
  crash   a simulated crash before every mutating call k of a store over a pre-existing cache
          directory, then cache[cpv], every other entry and sorted(cache.keys()) by a fresh
          cache object                                                  impl vs Model_C27.run_crash (A)
          -- twice: (i) harness/fsx.py: exception raised inside the process, file objects unbuffered
          (every character handed to writelines is a crash point); (ii) HARD KILL: the store runs in
          a forked child with its real buffering and is killed by os._exit before each recorded call
          (create / buffered write / close / chown / chmod / rename), so text still in the buffer is lost
  fault   call k of a store raises OSError(EIO) instead of being performed (every non-write call, some
          writes) and the store's own error handling runs: what the store raised, cache[cpv], the
          other entries and the listing                                 impl vs Model_C27.run_fault (A)
          + the same oracle (B).  corpus/C27/*.json: fixed scenarios, run first.
          (B) directly on the observations: cache[cpv] is the old or the complete new result,
          other entries are unchanged, every listed key was listed before or is cpv with the
          complete new entry, no previously listed key disappears.
"""

from __future__ import annotations

import json
import math
import os
import shutil
import tempfile

from . import fsx
from .common import VERIF, Check, Err, cN, cbool, clist, cnat, copt, cpair, cstr, impl_call

IMPORTS = ("From Coq Require Import List NArith ZArith Bool.\n"
           "From Verif Require Import Base.Val C18.Fs C27.Model_C27 C27.Spec_C27.")
ANCHORS = ["cache/flat_hash.py::database._getitem", "cache/flat_hash.py::database._parse_data",
           "cache/flat_hash.py::database._setitem", "cache/flat_hash.py::database.keys",
           "cache/flat_hash.py::md5_cache", "cache/__init__.py::base.__setitem__",
           "cache/__init__.py::base.__getitem__", "cache/__init__.py::base.deconstruct_eclasses",
           "cache/__init__.py::base.reconstruct_eclasses", "cache/fs_template.py::FsBased._ensure_access",
           "cache/fs_template.py::FsBased._ensure_dirs", "cache/__init__.py::base._mtime_serializer",
           "cache/__init__.py::base._default_serializer", "cache/__init__.py::base._mtime_deserializer",
           "cache/__init__.py::base._default_deserializer", "cache/__init__.py::base._eclassdir_serializer"]
KINDS = {"KeyError": "KeyError", "CacheCorruption": "CacheCorruption"}

META = ["BDEPEND", "DEFINED_PHASES", "DEPEND", "DESCRIPTION", "EAPI", "HOMEPAGE", "IDEPEND", "INHERIT",
        "INHERITED", "IUSE", "KEYWORDS", "LICENSE", "PDEPEND", "PROPERTIES", "RDEPEND", "REQUIRED_USE",
        "RESTRICT", "SLOT", "SRC_URI"]
SPACES = [9, 11, 12, 28, 29, 30, 31, 32, 133, 160, 5760, 8192, 8202, 8232, 8233, 8239, 8287, 12288]
NEAR_SPACES = [8, 14, 27, 33, 132, 134, 159, 161, 5759, 8191, 8203, 8231, 8234, 8288, 12287, 0x200b, 0xfeff]


# ------------------------------------------------------------------ Coq rendering
def c_lay(lay):
    return "Flat" if lay == "flat" else "Md5"


def c_edata(d):
    return f"(mk_e {cstr(d[0])} {cN(d[1])} {cN(d[2])})"


def c_entry(e):
    kvs = clist([cpair(cstr(k), cstr(v)) for k, v in e["kvs"]], "str * str")
    ecl = copt(e["ecl"], lambda m: clist([cpair(cstr(n), c_edata(d)) for n, d in m], "str * edata"),
               "list (str * edata)")
    chf = copt(e["chf"], c_edata, "edata")
    return f"(mk_entry {kvs} {ecl} {chf})"


def c_path(p):
    return clist([cstr(x) for x in p], "str")


# ------------------------------------------------------------------ generators
def g_word(rng, lo=1, hi=8):
    return "".join(rng.choice("abcdefghijklmnopqrstuvwxyz0123456789-_.+/:") for _ in range(rng.randint(lo, hi)))


def g_value(rng, wf=True):
    """a single-line metadata value; wf: what the round-trip statement quantifies over"""
    r = rng.random()
    if r < 0.12:
        return ""
    words = [g_word(rng) for _ in range(rng.randint(1, 4))]
    sep = rng.choice([" ", " ", " ", "\t", "  "])
    v = sep.join(words)
    r = rng.random()
    if r < 0.15:
        v = v + "=" + g_word(rng)                      # '=' inside a value
    elif r < 0.25:
        v = v + rng.choice(["é", "ß", "→", "\U0001f600", "あ"])
    elif r < 0.40:
        v = v + chr(rng.choice(SPACES + NEAR_SPACES)) * rng.randint(1, 2)      # trailing (near-)blank
    elif r < 0.50:
        v = chr(rng.choice(SPACES + NEAR_SPACES)) + v  # leading (near-)blank
    elif r < 0.55:
        v = chr(rng.choice(SPACES)) * rng.randint(1, 3)                    # blank only
    if not wf and rng.random() < 0.5:
        v = v + rng.choice(["\n", "\r", "\r\n"]) + g_word(rng)
    return v


ECL_DIRS = ["/r/eclass", "/var/db/repos/gentoo/eclass", "/", "", "rel/dir", "/x y/é", "//", "/a//", "e"]


def g_edata(rng, name="x"):
    d = rng.choice(ECL_DIRS)
    path = (d + "/" if d not in ("", "/", "//") else d) + name + ".eclass"
    if d == "//":
        path = "//" + name + ".eclass"
    sec = rng.choice([0, 1, 9, 10, 1700000000, rng.randrange(1 << 31), rng.randrange(1 << 40)])
    # the stamp in milliseconds: os.stat().st_mtime is a float; eighths of a second are exact in
    # binary floating point, so fractions below, at and above .5 are all produced
    mt = sec * 1000 + rng.choice([0, 0, 125, 250, 375, 500, 625, 750, 875, 875])
    md = rng.choice([0, 1, 15, 16, rng.randrange(1 << 64), rng.randrange(1 << 128), (1 << 128) - 1])
    return (path, mt, md)


def g_entry(rng, lay, wf=True):
    keys = rng.sample(META, rng.randint(0, 6))
    if rng.random() < 0.3:
        keys.append(rng.choice(["BOGUS", "x", "_md5_", "_mtime_", "eapi", "EAPI "]))
    if not wf and rng.random() < 0.4:
        keys.append(rng.choice(["A=B", " LEAD", "EAPI=x"]))
    seen, kvs = set(), []
    for k in keys:
        if k not in seen:
            seen.add(k)
            kvs.append((k, g_value(rng, wf)))
    r = rng.random()
    if r < 0.3:
        ecl = None
    elif r < 0.4:
        ecl = []
    else:
        names = []
        for _ in range(rng.randint(1, 3)):
            n = rng.choice(["eutils", "toolchain-funcs", "python-r1", "a", "git-r3", "multilib_1.2", g_word(rng).replace("/", "x").replace(":", "y")])
            if n not in names:
                names.append(n)
        ecl = [(n, g_edata(rng, n)) for n in names]
    chf = None if rng.random() < 0.04 else g_edata(rng, "pkg")
    return {"kvs": kvs, "ecl": ecl, "chf": chf}


# ------------------------------------------------------------------ driving the implementation
class Impl:
    def __init__(self, root):
        from pkgcore.cache import flat_hash
        from snakeoil.chksum import LazilyHashedPath

        self.fh, self.LHP, self.root = flat_hash, LazilyHashedPath, root
        self.gid = os.getegid()

    def cache(self, lay, readonly=False):
        loc = os.path.join(self.root, "c")
        if lay == "flat":
            return self.fh.database(loc, gid=self.gid, readonly=readonly)
        c = self.fh.md5_cache(self.root, gid=self.gid, readonly=readonly)
        c.location = loc            # md5_cache only differs by the metadata/md5-cache suffix
        return c

    def obj(self, d):
        ms = d[1]
        mtime = ms // 1000 if ms % 1000 == 0 and ms % 2000 == 0 else ms / 1000.0    # int or float stamp
        assert int(mtime * 1000) == ms
        return self.LHP(d[0], mtime=mtime, md5=d[2])

    def values(self, e):
        v = dict(e["kvs"])
        if e["ecl"] is not None:
            v["_eclasses_"] = {n: self.obj(d) for n, d in e["ecl"]}
        if e["chf"] is not None:
            v["_chf_"] = self.obj(e["chf"])
        return v

    def reset(self):
        shutil.rmtree(os.path.join(self.root, "c"), ignore_errors=True)

    def put_raw(self, cpv, text):
        p = os.path.join(self.root, "c", *cpv)
        os.makedirs(os.path.dirname(p), exist_ok=True)
        with open(p, "wb") as f:
            f.write(text.encode("utf8"))

    def read(self, lay, cpv):
        return impl_call(lambda: canon_item(self.cache(lay)["/".join(cpv)]), kinds=KINDS)


def canon_item(d):
    out = []
    for k, v in d.items():
        if k == "_eclasses_":
            v = [[n, [[c, x] for c, x in chfs]] for n, chfs in v]
        out.append([k, v])
    return out


def is_space(ch):
    return ch.isspace()


def py_expected(lay, e):
    """the round-trip statement, independently of pkgcore and of the Coq model"""
    exp = {}
    for k, v in e["kvs"]:
        if k in META and k != "_eclasses_":
            exp[k] = v.rstrip()
    if e["ecl"] is not None:
        if lay == "flat":
            exp["_eclasses_"] = [[n, [["eclassdir", os.path.dirname(d[0])], ["mtime", math.floor(d[1] / 1000.0)]]]
                                 for n, d in e["ecl"]]
        else:
            exp["_eclasses_"] = [[n, [["md5", d[2]]]] for n, d in e["ecl"]]
    exp["_mtime_" if lay == "flat" else "_md5_"] = math.floor(e["chf"][1] / 1000.0) if lay == "flat" else e["chf"][2]
    return exp


# ------------------------------------------------------------------ parse stream inputs
def mutate(rng, text, lay):
    r = rng.randrange(13)
    lines = text.split("\n")
    if r == 0 and text:                                  # truncated file = what a partial entry looks like
        return text[: rng.randrange(len(text))]
    if r == 1 and text:
        i = rng.randrange(len(text))
        return text[:i] + text[i + 1:]
    if r == 2:
        return text.replace("\n", "\r\n")
    if r == 3:
        return text.replace("\n", "\r")
    if r == 4:
        i = rng.randrange(len(lines))
        return "\n".join(lines[:i] + [rng.choice(["", "noequals", " ", "=", "=v", "EAPI"])] + lines[i:])
    if r == 5:                                           # drop the validation line
        return "\n".join(l for l in lines if not l.startswith(("_mtime_", "_md5_")))
    if r == 6:                                           # duplicate key, later wins
        return text + rng.choice(["EAPI=7\n", "_mtime_=77\n", "_md5_=0aF\n", "DESCRIPTION=again", "_eclasses_=\n"])
    if r == 7:                                           # garbage validation value
        k = "_mtime_" if lay == "flat" else "_md5_"
        return "\n".join(l for l in lines if not l.startswith(k)) + f"{k}={rng.choice(['', 'zz', '12x', 'g', '/', 'x9'])}\n"
    if r == 8:                                           # eclass arity / garbage
        bad = rng.choice(["a", "a\tb", "a\t/d\tzz", "a\t/d\t5\tb", "a\tzz", "a\t0f\tb\t1F\tc", "\t", "a\t\t7", " a\t/d\t5 ",
                          "a\t/d\t5\t", "\ta\t/d\t5"])
        return "\n".join(l for l in lines if not l.startswith("_eclasses_")) + f"_eclasses_={bad}\n"
    if r == 9:
        return chr(rng.choice(SPACES)) + text + chr(rng.choice(SPACES + NEAR_SPACES))
    if r == 10:
        return text + rng.choice(["X=1", "\n", "\n\n", " \n", "IUSE= a b ", "KEYWORDS=\x0b~x\x1c"])
    if r == 11:
        i = rng.randrange(len(lines))
        lines[i] = chr(rng.choice(SPACES + NEAR_SPACES)) + lines[i] + chr(rng.choice(SPACES + NEAR_SPACES))
        return "\n".join(lines)
    return text.upper() if rng.random() < 0.3 else text.replace("=", "", 1)


# ------------------------------------------------------------------ hard-kill crash points (reusable)
# harness/fsx.py simulates a crash by raising inside the process and makes file objects unbuffered,
# so (a) `with`/`finally` blocks still run and flush, (b) buffered data is never lost.  A real
# crash (power cut, SIGKILL) loses whatever still sits in a Python file object's buffer.  The
# helpers below record the mutating SYSTEM-LEVEL calls of a code block WITHOUT touching its
# buffering and can kill the process (os._exit in a forked child) right before call k.
# Reusable as is by other properties whose code stages a file and renames it (AtomicWriteFile
# users: C24, C28, C30):   trace = trace_syscalls(fn, root);  rc = run_hard_kill(fn, root, k)
KILL_RC = 99
_OS_PATCHED = ("mkdir", "rename", "replace", "chown", "lchown", "chmod", "utime", "remove", "unlink", "rmdir",
               "link", "symlink", "truncate")


class SysCall:
    __slots__ = ("kind", "paths", "args", "ok", "data", "mode")

    def __init__(self, kind, paths, args):
        self.kind, self.paths, self.args, self.ok, self.data, self.mode = kind, paths, args, True, None, None

    def __repr__(self):
        extra = "" if self.data is None else f" flushed={self.data[:30]!r}"
        return f"{self.kind}({', '.join('/'.join(p) if p is not None else '?' for p in self.paths)}){extra}" + ("" if self.ok else " FAILED")


class _FileProxy:
    """a writable file object under root: same buffering as the real one; write()/writelines() are
    recorded as 'bwrite' (data handed to the buffer: no system call), flush()/close()/__exit__ as
    'flush'/'close' together with the bytes that really reached the file at that point"""

    def __init__(self, tr, f, path):
        object.__setattr__(self, "_tr", tr)
        object.__setattr__(self, "_f", f)
        object.__setattr__(self, "_path", path)

    def __getattr__(self, name):
        return getattr(self._f, name)

    def __enter__(self):
        return self

    def __iter__(self):
        return iter(self._f)

    def _sync_point(self, kind, action):
        c = self._tr.before(kind, [self._path], ())
        size = os.path.getsize(self._path) if os.path.exists(self._path) else 0
        try:
            r = action()
        except BaseException:
            c.ok = False
            raise
        finally:
            try:
                with self._tr.real_open(self._path, "rb") as g:
                    g.seek(size)
                    c.data = g.read().decode("utf8", "surrogateescape")
            except OSError:
                c.data = ""
        return r

    def write(self, data):
        self._tr.before("bwrite", [self._path], (data,))
        return self._f.write(data)

    def writelines(self, lines):
        lines = list(lines)
        self._tr.before("bwrite", [self._path], ("".join(lines),))
        return self._f.writelines(lines)

    def flush(self):
        return self._sync_point("flush", self._f.flush)

    def close(self):
        if self._f.closed:
            return None
        return self._sync_point("close", self._f.close)

    def __exit__(self, *a):
        if self._f.closed:
            return self._f.__exit__(*a)
        return self._sync_point("close", lambda: self._f.__exit__(*a))


class SyscallTrace:
    def __init__(self, root, kill_at=None):
        self.root = os.path.realpath(root)
        self.kill_at = kill_at
        self.trace = []

    def rel(self, path):
        try:
            path = os.fspath(path)
        except TypeError:
            return None
        if isinstance(path, bytes):
            path = os.fsdecode(path)
        d, b = os.path.split(os.path.abspath(path))
        full = os.path.join(os.path.realpath(d), b) if b else os.path.realpath(d)
        if full == self.root:
            return ()
        if not full.startswith(self.root + os.sep):
            return None
        return tuple(full[len(self.root) + 1:].split(os.sep))

    def before(self, kind, paths, args):
        if len(self.trace) == self.kill_at:
            os._exit(KILL_RC)                    # the machine stops: nothing is flushed, no handler runs
        c = SysCall(kind, [self.rel(p) for p in paths], args)
        self.trace.append(c)
        return c

    def __enter__(self):
        import builtins
        import io
        self.real_open = builtins.open
        self.saved = {n: getattr(os, n) for n in _OS_PATCHED}
        tr = self

        def mk(name, real):
            def patched(*a, **kw):
                paths = [x for x in a[: 2 if name in ("rename", "replace", "link", "symlink") else 1]]
                if not any(tr.rel(x) is not None for x in paths):
                    return real(*a, **kw)
                c = tr.before("unlink" if name == "remove" else name, paths, a[1:])
                try:
                    r = real(*a, **kw)
                except BaseException:
                    c.ok = False
                    raise
                if name in ("mkdir", "chmod"):
                    c.mode = os.stat(a[0]).st_mode & 0o7777
                return r
            return patched
        for n, real in self.saved.items():
            setattr(os, n, mk(n, real))

        def popen(file, mode="r", *a, **kw):
            if isinstance(file, int) or tr.rel(file) is None or not any(ch in mode for ch in "wax+"):
                return tr.real_open(file, mode, *a, **kw)
            existed = os.path.lexists(file)
            c = tr.before("truncate" if existed else "create", [file], (mode,))
            try:
                f = tr.real_open(file, mode, *a, **kw)
            except BaseException:
                c.ok = False
                raise
            c.mode = os.stat(file).st_mode & 0o7777
            return _FileProxy(tr, f, os.fspath(file))
        self.saved_open = (builtins.open, io.open)
        builtins.open = popen
        io.open = popen
        return self

    def __exit__(self, *a):
        import builtins
        import io
        for n, real in self.saved.items():
            setattr(os, n, real)
        builtins.open, io.open = self.saved_open
        return False


def trace_syscalls(fn, root):
    """run fn() in this process; -> (list[SysCall], exception or None)"""
    exc = None
    with SyscallTrace(root) as tr:
        try:
            fn()
        except Exception as e:  # noqa: BLE001
            exc = e
    return tr.trace, exc


def run_hard_kill(fn, root, k):
    """fork; the child runs fn() and is killed (os._exit) immediately before its k-th recorded call.
    -> child's exit code (KILL_RC: killed at k; 0: fn completed before reaching k; 3: fn raised)"""
    pid = os.fork()
    if pid == 0:
        rc = 0
        try:
            with SyscallTrace(root, kill_at=k):
                fn()
        except BaseException:  # noqa: BLE001
            rc = 3
        finally:
            os._exit(rc)
    _, status = os.waitpid(pid, 0)
    return os.waitstatus_to_exitcode(status)


def syscall_ops(trace):
    """the system calls that changed the tree, in the encoding of Model_C27.enc_ops"""
    out = []
    for c in trace:
        if not c.ok or c.kind == "bwrite":
            continue
        p = [list(x) if x is not None else None for x in c.paths]
        if c.kind in ("create", "mkdir", "chmod"):
            out.append([c.kind, p[0], c.mode])
        elif c.kind in ("flush", "close"):
            if c.data:
                if out and out[-1][0] == "write" and out[-1][1] == p[0]:
                    out[-1][2] += c.data
                    out[-1][3] += 1
                else:
                    out.append(["write", p[0], c.data, 1])
        elif c.kind == "chown":
            out.append(["chown", p[0], None if c.args[1] == -1 else c.args[1]])
        elif c.kind == "rename":
            out.append(["rename", p[0], p[1]])
        else:
            out.append([c.kind, p])
    return out


def syscalls_done(trace, k):
    """number of tree-changing system calls among the first k recorded calls"""
    return sum(1 for c in trace[:k] if c.ok and c.kind != "bwrite" and not (c.kind in ("flush", "close") and not c.data))


# ------------------------------------------------------------------ crash stream
def build_pre(impl, with_loc, files):
    impl.reset()
    if with_loc:
        os.makedirs(os.path.join(impl.root, "c"))
    for cpv, text in files:
        impl.put_raw(cpv, text)


def observe(impl, lay, cpv, files):
    c = impl.cache(lay)
    return [impl.read(lay, cpv), [impl.read(lay, f) for f, _ in files],
            impl_call(lambda: sorted(c.keys()), kinds=KINDS)]


def trace_ops(trace, root):
    """successful mutating calls; a run of consecutive writes to one path becomes one item
    ["write", path, all data, number of calls] (the model checks one call per character)"""
    out = []
    for t in trace:
        if not t.ok:
            continue
        p = [list(x) if x is not None else None for x in t.cpaths]
        if t.kind in ("create", "mkdir", "chmod"):
            out.append([t.kind, p[0], t.args[1]])
        elif t.kind == "write":
            data = t.args[2].decode("utf8", "surrogateescape")
            if out and out[-1][0] == "write" and out[-1][1] == p[0]:
                out[-1][2] += data
                out[-1][3] += 1
            else:
                out.append(["write", p[0], data, 1])
        elif t.kind == "chown":
            out.append(["chown", p[0], None if t.args[2] == -1 else t.args[2]])
        elif t.kind == "rename":
            out.append(["rename", p[0], p[1]])
        else:
            out.append([t.kind, p])
    return out


def crash_oracle(old, new, obs, cpv, files):
    """deviations of one crash observation from the statement"""
    bad = []
    key = "/".join(cpv)
    if obs[0] != old[0] and obs[0] != new[0]:
        bad.append("cache[cpv] is neither the previous nor the new complete entry")
    for i, (f, _) in enumerate(files):
        if f != cpv and obs[1][i] != old[1][i]:
            bad.append(f"another entry ({'/'.join(f)}) changed")
    if isinstance(obs[2], Err):
        bad.append("listing failed")
        return bad
    for k in obs[2]:
        if k in old[2]:
            continue
        if k == key and obs[0] == new[0] and not isinstance(new[0], Err):
            continue
        bad.append(f"listing reports {k!r}, which is neither a previously listed entry nor the complete new one")
    for k in old[2]:
        if k not in obs[2]:
            bad.append(f"previously listed entry {k!r} disappeared from the listing")
    return bad


def main(chk: Check):
    rng = chk.rng
    chk.rule("random metadata dicts (0-6 known keys + unknown/colliding keys, values with '=', tabs, "
             "non-ASCII and (near-)blank code points at either end, empty/blank values; eclass maps of 0-3 "
             "eclasses with assorted directories, float mtimes up to 2^40 with fractions 0, 1/8 .. 7/8 s, md5 up to 2^128-1; missing _chf_) for "
             "both layouts; parse: the serialised texts plus 13 kinds of mutation (truncation, CR/CRLF, "
             "blank/no-'=' lines, missing/garbage validation value, duplicate keys, eclass arity, blanks); "
             "crash: stores over 6 kinds of pre-existing cache directory (missing location, missing "
             "category dir, other entries, replaced entry, leftover .update file of another pid, depth 0/2), "
             "a crash before every (quick: sampled) mutating call; non-trivial = distinct (layout, entry) / "
             "distinct mutated text / distinct (pre-state, crash point)")
    ok = chk.build(["C27/Prop_C27.vo"])
    if ok:
        chk.check_assumptions("C27/Prop_C27.v")
    chk.lint(["C27"])
    chk.check_fingerprint(ANCHORS)

    old_umask = os.umask(0o022)
    root = tempfile.mkdtemp(prefix="verif_c27_")
    try:
        _run(chk, rng, root, ok)
    finally:
        os.umask(old_umask)
        shutil.rmtree(root, ignore_errors=True)


def _run(chk, rng, root, ok):
    impl = Impl(root)
    cpv = ["cat", "pkg-1"]
    # ---------------------------------------------------------------- ser / rt / parse
    ser_cases, rt_cases, parse_cases, py_bad = [], [], [], []
    texts = []
    n_ser = chk.n(120, 1500)
    for i in range(n_ser):
        lay = "flat" if i % 2 == 0 else "md5"
        wf = rng.random() < 0.8
        e = g_entry(rng, lay, wf)
        impl.reset()
        c = impl.cache(lay)
        res = impl_call(lambda: c.__setitem__("/".join(cpv), impl.values(e)), kinds=KINDS)
        if isinstance(res, Err):
            ser_res = res
        else:
            with open(os.path.join(root, "c", *cpv), "rb") as f:
                ser_res = f.read().decode("utf8")
            texts.append((lay, ser_res))
        term = cpair(c_lay(lay), c_entry(e))
        ser_cases.append((term, ser_res))
        if wf:
            back = impl.read(lay, cpv) if not isinstance(res, Err) else res
            rt_cases.append((term, back))
            chk.nontrivial(("rt", term))
            if e["chf"] is not None:
                exp = py_expected(lay, e)
                got = dict((k, v) for k, v in back) if not isinstance(back, Err) else back
                if got != exp:
                    py_bad.append({"layout": lay, "entry": e, "read_back": back, "expected": exp})
        if i < 2:
            chk.sample({"stream": "ser", "layout": lay, "entry": e, "text": ser_res})
    chk.count("ser", len(ser_cases))
    chk.count("rt", len(rt_cases))

    n_parse = chk.n(200, 2500)
    seen = set()
    for i in range(n_parse):
        lay, text = rng.choice(texts)
        if rng.random() < 0.85:
            text = mutate(rng, text, lay)
            if rng.random() < 0.25:
                text = mutate(rng, text, lay)
        if rng.random() < 0.1:
            lay = "md5" if lay == "flat" else "flat"      # a file of the other layout
        if (lay, text) in seen:
            continue
        seen.add((lay, text))
        impl.reset()
        impl.put_raw(cpv, text)
        res = impl.read(lay, cpv)
        parse_cases.append((cpair(c_lay(lay), cstr(text)), res))
        chk.nontrivial(("parse", lay, text))
        if len(parse_cases) == 5:
            chk.sample({"stream": "parse", "layout": lay, "text": text, "impl": res})
    chk.count("parse", len(parse_cases))

    # ---------------------------------------------------------------- ops / crash
    ops_cases, crash_cases, fault_cases, crash_bad = [], [], [], []
    n_hkill = 0
    n_store = chk.n(6, 24)
    per_store = chk.n(12, 10 ** 6)
    pid = os.getpid()
    plan = []
    # corpus first: fixed scenarios (minimised past misses)
    for cp in sorted((VERIF / "corpus" / "C27").glob("*.json")):
        cj = json.loads(cp.read_text())
        ce = {"kvs": [tuple(x) for x in cj["entry"]["kvs"]],
              "ecl": None if cj["entry"]["ecl"] is None else [(n, tuple(d)) for n, d in cj["entry"]["ecl"]],
              "chf": tuple(cj["entry"]["chf"])}
        plan.append((cj["layout"], ce, cj["with_loc"], [(list(f), t) for f, t in cj["files"]], list(cj["target"]), True))
    for i in range(n_store):
        lay = "flat" if i % 2 == 0 else "md5"
        e = g_entry(rng, lay, True)
        e["kvs"] = [(k, v[:12]) for k, v in e["kvs"][:3]]
        if e["ecl"]:
            e["ecl"] = e["ecl"][:1]
        if e["chf"] is None:
            e["chf"] = g_edata(rng, "pkg")
        other = "EAPI=8\n" + ("_mtime_=5\n" if lay == "flat" else "_md5_=0f\n")
        kind = i % 6
        with_loc, files, target = True, [], cpv
        if kind == 0:
            with_loc = False
        elif kind == 1:
            files = [(["dog", "x-2"], other)]
        elif kind == 2:
            files = [(["cat", "other-3"], other), (["cat", "zzz-1"], "DESCRIPTION=d\n" + other)]
        elif kind == 3:                                  # replacement of an existing entry
            files = [(cpv, "DESCRIPTION=old\n" + other), (["cat", "other-3"], other)]
        elif kind == 4:                                  # leftover of another process's crash
            files = [(["cat", ".update.99999.pkg-1"], "DESCRIP"), (["cat", "x.cpickle"], "junk"), (cpv, other)]
        else:
            target = rng.choice([["pkg-1"], ["a", "b", "pkg-1"]])
            files = [(["top-1"], other)]
        plan.append((lay, e, with_loc, files, target, False))
    for i, (lay, e, with_loc, files, target, full) in enumerate(plan):
        key = "/".join(target)
        vals_of = lambda: impl.values(e)  # noqa: E731
        build_pre(impl, with_loc, files)
        old = observe(impl, lay, target, files)
        build_pre(impl, with_loc, files)
        c = impl.cache(lay)
        run = fsx.record(lambda: c.__setitem__(key, vals_of()), root)
        new = observe(impl, lay, target, files)
        tr = run.trace
        base = (f"(mk_cc {c_lay(lay)} {cbool(with_loc)} "
                + clist([cpair(c_path(f), cstr(t)) for f, t in files], "path * str")
                + f" {cN(pid)} {cN(impl.gid)} {c_path(target)} {c_entry(e)} @K@ @B@)")
        ops_cases.append((base.replace("@K@", cnat(0)).replace("@B@", "false"), trace_ops(tr, root) if run.exc is None else Err(type(run.exc).__name__)))
        n = len(tr)
        points = list(range(n + 1))
        if len(points) > per_store:
            head, tail = points[:4], points[-7:]
            mid = rng.sample(points[4:-7], per_store - 11)
            points = sorted(set(head + tail + mid))
        for k in points:
            build_pre(impl, with_loc, files)
            c = impl.cache(lay)
            r = fsx.run_with_fault(lambda: c.__setitem__(key, vals_of()), root, k, mode="crash")
            obs = observe(impl, lay, target, files)
            mk = sum(1 for t in tr[:k] if t.ok)
            crash_cases.append((base.replace("@K@", cnat(mk)).replace("@B@", "false"), obs))
            chk.nontrivial(("crash", i, k))
            bad = crash_oracle(old, new, obs, target, files)
            if bad:
                crash_bad.append({"what": bad[0], "all": bad, "layout": lay, "pre_state": files,
                                  "location_exists": with_loc, "cpv": key, "entry": e,
                                  "crash_kind": "exception inside the process before call k (writes unbuffered)",
                                  "crash_before_call": k, "call": repr(tr[k]) if k < n else "(none: store complete)",
                                  "observed": obs})
            if k == n - 1 and i < 2:
                chk.sample({"stream": "crash", "layout": lay, "cpv": key, "crash_before_call": repr(tr[k]),
                            "read": obs[0], "keys": obs[2]})
        # ---- FAULTS: call k raises OSError(EIO) instead of being performed; the store's own error
        #      handling runs.  Every non-write call, and a few (thorough: all) writes.
        fpoints = [k for k in range(n) if tr[k].kind != "write"]
        wpoints = [k for k in range(n) if tr[k].kind == "write"]
        fpoints += wpoints if chk.thorough else rng.sample(wpoints, min(5 if full else 3, len(wpoints)))
        for k in sorted(fpoints):
            build_pre(impl, with_loc, files)
            c = impl.cache(lay)
            r = fsx.run_with_fault(lambda: c.__setitem__(key, vals_of()), root, k, mode="eio")
            raised = None if r.exc is None else Err(type(r.exc).__name__)
            obs = observe(impl, lay, target, files)
            if tr[k].ok:        # (a call that fails anyway, the first open in a missing directory, has no model op)
                mk = sum(1 for t in tr[:k] if t.ok)
                fault_cases.append((base.replace("@K@", cnat(mk)).replace("@B@", "false"), [raised] + obs))
            chk.nontrivial(("fault", i, k))
            bad = crash_oracle(old, new, obs, target, files)
            if bad:
                crash_bad.append({"what": bad[0], "all": bad, "layout": lay, "pre_state": files,
                                  "location_exists": with_loc, "cpv": key, "entry": e,
                                  "crash_kind": "fault: call k raises OSError(EIO) instead of being performed; the store's error handling runs",
                                  "crash_before_call": k, "call": repr(tr[k]), "store_raised": raised,
                                  "observed": obs})
        # ---- the same store with its REAL buffering: system-call trace, then a hard kill
        #      (forked child, os._exit) before every recorded call
        build_pre(impl, with_loc, files)
        c = impl.cache(lay)
        htr, hexc = trace_syscalls(lambda: c.__setitem__(key, vals_of()), root)
        hnew = observe(impl, lay, target, files)
        ops_cases.append((base.replace("@K@", cnat(0)).replace("@B@", "true"),
                          syscall_ops(htr) if hexc is None else Err(type(hexc).__name__)))
        hn = len(htr)
        bw = [k for k in range(hn) if htr[k].kind == "bwrite"]
        # between two buffered writes nothing reaches the disk: quick keeps the first and the last of them
        hpoints = [k for k in range(hn + 1) if chk.thorough or k == hn or htr[k].kind != "bwrite" or k in (bw[0], bw[-1])]
        for k in hpoints:
            build_pre(impl, with_loc, files)
            c = impl.cache(lay)
            rc = run_hard_kill(lambda: c.__setitem__(key, vals_of()), root, k)
            obs = observe(impl, lay, target, files)
            if rc not in (KILL_RC, 0):
                raise AssertionError(f"hard-kill child exit code {rc} at call {k}")
            crash_cases.append((base.replace("@K@", cnat(syscalls_done(htr, k))).replace("@B@", "true"), obs))
            chk.nontrivial(("hkill", i, k))
            n_hkill += 1
            bad = crash_oracle(old, hnew, obs, target, files)
            if bad:
                crash_bad.append({"what": bad[0], "all": bad, "layout": lay, "pre_state": files,
                                  "location_exists": with_loc, "cpv": key, "entry": e,
                                  "crash_kind": "process killed (os._exit) before call k; file objects keep their real buffering",
                                  "crash_before_call": k, "call": repr(htr[k]) if k < hn else "(none: store complete)",
                                  "calls_of_the_store": [repr(x) for x in htr], "observed": obs})
            if k == hn - 1 and i < 2:
                chk.sample({"stream": "crash", "kind": "hard kill", "layout": lay, "cpv": key,
                            "calls_of_the_store": [repr(x) for x in htr], "killed_before": repr(htr[k]),
                            "read": obs[0], "keys": obs[2]})
    chk.count("ops", len(ops_cases))
    chk.count("crash", len(crash_cases))
    chk.count("fault", len(fault_cases))
    chk.cov["hard_kill_points"] = n_hkill

    # ---------------------------------------------------------------- evaluate model and spec in Coq
    streams = [
        ("ser", "layout * entry", ser_cases, ["mismatches run_ser cases"]),
        ("rt", "layout * entry", rt_cases,
         ["mismatches run_rt cases", "where_ (fun i r => negb (spec_roundtrip_ok i r)) cases"]),
        ("parse", "layout * str", parse_cases, ["mismatches run_parse cases"]),
        ("ops", "crash_case", ops_cases, ["mismatches run_ops cases"]),
        ("crash", "crash_case", crash_cases, ["mismatches run_crash cases"]),
        ("fault", "crash_case", fault_cases, ["mismatches run_fault cases"]),
    ]
    spec_bad = []
    found_input = bool(py_bad or crash_bad)
    results = {}
    if ok:
        import concurrent.futures as cf
        with cf.ThreadPoolExecutor(max_workers=len(streams)) as ex:
            futs = {name: ex.submit(chk.coq_eval, name, IMPORTS, ty, cases, evals, 200)
                    for name, ty, cases, evals in streams}
        for name, f in futs.items():
            r = f.result()
            if r is not None:
                results[name] = r
        if "rt" in results:
            spec_bad = [rt_cases[i] for i in results["rt"][1]]
    found_input = found_input or bool(spec_bad)
    for name, ty, cases, evals in streams:
        r = results.get(name)
        if not r:
            continue
        for i in r[0][:3]:
            chk.violation("correspondence",
                          {"what": f"implementation and Model_C27 disagree on stream '{name}' "
                                   "(the theorems of Prop_C27 no longer speak about this code)",
                           "input": cases[i][0], "implementation": cases[i][1]},
                          no_input=not found_input)
    for b in py_bad[:3]:
        chk.violation("property", {"what": "a stored entry does not read back as the same known keys/values, "
                                           "eclass data and validation value", "input": b})
    if spec_bad and not py_bad:
        for s in spec_bad[:3]:
            chk.violation("property", {"what": "Spec_C27.spec_roundtrip_ok rejects the entry read back",
                                       "input": s[0], "implementation": s[1]})
    seen_what = set()
    for b in crash_bad:
        w = b["what"].split("'")[0][:60] + b.get("crash_kind", "")[:12]
        if w in seen_what:
            continue
        seen_what.add(w)
        chk.violation("property", {"what": "crash during a cache store: " + b["what"], "input": b})


def replay(chk, data):
    print("re-run with the same seed: VERIF_SEED=%s ./check C27 --tier %s" % (data.get("seed"), data.get("tier")))
