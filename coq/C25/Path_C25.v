(* Path_C25.v — POSIX path string functions used by the C25 model (posixpath.normpath / join /
   dirname, str.lstrip("/") / rstrip("/") / startswith) with the lemmas the round-trip proof needs.
   The definitions are the ones of C22/Model_C22.v (transcribed from CPython's posixpath), copied
   here so that C25 does not depend on a development that is still being edited; the first block
   of lemmas (split/join, np_step) follows C22/Proofs_C22.v. *)
From Coq Require Import List NArith ZArith Bool Arith Lia.
Import ListNotations.
From Verif Require Import Base.Val.

Definition SL : N := 47%N.                       (* "/" *)
Definition is_sl (c : N) : bool := N.eqb c 47.
Definition dot : str := [46%N].
Definition dotdot : str := [46%N; 46%N].

Fixpoint split_sl (s : str) : list str :=        (* s.split("/") *)
  match s with
  | [] => [[]]
  | c :: r =>
      if is_sl c then [] :: split_sl r
      else match split_sl r with
           | h :: t => (c :: h) :: t
           | [] => [[c]]
           end
  end.

Fixpoint join_sl (l : list str) : str :=         (* "/".join(l) *)
  match l with
  | [] => []
  | a :: r => match r with [] => a | _ => a ++ SL :: join_sl r end
  end.

(* one iteration of the component loop of posixpath.normpath; [acc] is new_comps, top first *)
Definition np_step (rooted : bool) (acc : list str) (c : str) : list str :=
  if str_eqb c [] || str_eqb c dot then acc
  else if negb (str_eqb c dotdot) then c :: acc
  else match acc with
       | [] => if rooted then acc else c :: acc
       | t :: r => if str_eqb t dotdot then c :: acc else r
       end.

(* initial_slashes: 0, 1, or 2 (exactly two leading slashes are kept, POSIX) *)
Definition init_slashes (p : str) : nat :=
  match p with
  | a :: r =>
      if is_sl a then
        match r with
        | b :: r2 =>
            if is_sl b then
              match r2 with
              | c :: _ => if is_sl c then 1 else 2
              | [] => 2
              end
            else 1
        | [] => 1
        end
      else 0
  | [] => 0
  end.

Definition np_comps (p : str) : list str :=
  fold_left (np_step (Nat.ltb 0 (init_slashes p))) (split_sl p) [].

Definition or_dot (r : str) : str := match r with [] => dot | _ => r end.

Definition normpath (p : str) : str :=
  match p with
  | [] => dot
  | _ => or_dot (repeat SL (init_slashes p) ++ join_sl (rev (np_comps p)))
  end.

Fixpoint drop_while (f : N -> bool) (s : str) : str :=
  match s with
  | [] => []
  | c :: r => if f c then drop_while f r else s
  end.
Definition lstrip_sl (s : str) : str := drop_while is_sl s.
Definition rstrip_sl (s : str) : str := rev (drop_while is_sl (rev s)).
Definition strip_sl (s : str) : str := rstrip_sl (lstrip_sl s).

(* posixpath.dirname *)
Definition dirname (p : str) : str :=
  let rh := drop_while (fun c => negb (is_sl c)) (rev p) in      (* reversed head *)
  if forallb is_sl rh then rev rh else rev (drop_while is_sl rh).

Fixpoint starts_with (pre s : str) : bool :=
  match pre, s with
  | [], _ => true
  | a :: pre', b :: s' => N.eqb a b && starts_with pre' s'
  | _ :: _, [] => false
  end.

Definition ends_sl (a : str) : bool :=
  match rev a with c :: _ => is_sl c | [] => false end.

(* posixpath.join(a, b) *)
Definition pjoin (a b : str) : str :=
  match b with
  | c :: _ => if is_sl c then b
              else match a with
                   | [] => b
                   | _ => if ends_sl a then a ++ b else a ++ SL :: b
                   end
  | [] => match a with
          | [] => []
          | _ => if ends_sl a then a else a ++ [SL]
          end
  end.

(* Python's str "<" : lexicographic on code points *)
Fixpoint str_ltb (a b : str) : bool :=
  match a, b with
  | _, [] => false
  | [], _ :: _ => true
  | x :: a', y :: b' => if N.ltb x y then true else if N.eqb x y then str_ltb a' b' else false
  end.

(* change_offset_rewriter: strips len(orig.rstrip("/")) characters blindly, then "/"s, joins *)
Definition reloc (old new : str) (loc : str) : str :=
  normpath (pjoin new (lstrip_sl (skipn (length (rstrip_sl old)) loc))).
(* iter_child_nodes: the prefix every child location starts with *)
Definition child_prefix (start : str) : str := rstrip_sl (normpath start) ++ [SL].

(* ================================================================== lemmas *)
Lemma str_eqb_false a b : a <> b -> str_eqb a b = false.
Proof. destruct (str_eqb a b) eqn:E; auto. apply str_eqb_eq in E. contradiction. Qed.
Lemma str_eqb_neq a b : str_eqb a b = false -> a <> b.
Proof. intros H ->. rewrite str_eqb_refl in H. discriminate. Qed.

Definition nosl (c : str) : Prop := forallb (fun x => negb (is_sl x)) c = true.
(* a plain path component: non-empty, not "." or "..", no "/" *)
Definition plainc (c : str) : Prop := c <> [] /\ c <> dot /\ c <> dotdot /\ nosl c.

Lemma split_nosl_one a : nosl a -> split_sl a = [a].
Proof.
  induction a as [|c a IH]; intros H; cbn; [reflexivity|].
  unfold nosl in H. cbn in H. apply andb_true_iff in H as [H1 H2].
  apply negb_true_iff in H1. rewrite H1. rewrite (IH H2). reflexivity.
Qed.

Lemma split_app_sl a s : nosl a -> split_sl (a ++ SL :: s) = a :: split_sl s.
Proof.
  induction a as [|c a IH]; intros H; cbn.
  - reflexivity.
  - unfold nosl in H. cbn in H. apply andb_true_iff in H as [H1 H2].
    apply negb_true_iff in H1. rewrite H1. rewrite (IH H2). reflexivity.
Qed.

Lemma split_join l : l <> [] -> Forall nosl l -> split_sl (join_sl l) = l.
Proof.
  induction l as [|a r IH]; intros Hne HF; [congruence|].
  inversion HF as [|? ? Ha Hr]; subst. cbn [join_sl].
  destruct r as [|b r'].
  - apply split_nosl_one; assumption.
  - rewrite split_app_sl by assumption. f_equal. apply IH; [discriminate|assumption].
Qed.

Lemma np_step_plain rooted acc c : plainc c -> np_step rooted acc c = c :: acc.
Proof.
  intros (H1 & H2 & H3 & _). unfold np_step.
  rewrite (str_eqb_false _ _ H1), (str_eqb_false _ _ H2), (str_eqb_false _ _ H3). reflexivity.
Qed.

Lemma fold_plain rooted l acc : Forall plainc l -> fold_left (np_step rooted) l acc = rev l ++ acc.
Proof.
  revert acc; induction l as [|c l IH]; intros acc HF; cbn; [reflexivity|].
  inversion HF; subst. rewrite np_step_plain by assumption. rewrite IH by assumption.
  rewrite <- app_assoc. reflexivity.
Qed.

Lemma plain_nosl l : Forall plainc l -> Forall nosl l.
Proof. intro H. eapply Forall_impl; [|exact H]. intros c (_ & _ & _ & X). exact X. Qed.

(* the first character of a joined list of plain components is not "/" *)
Lemma join_plain_head l : l <> [] -> Forall plainc l ->
  exists x t, join_sl l = x :: t /\ is_sl x = false.
Proof.
  intros Hne HF. destruct l as [|c r]; [congruence|]. inversion HF as [|? ? Hc _]; subst.
  destruct Hc as (H1 & _ & _ & H4). destruct c as [|x c']; [congruence|].
  unfold nosl in H4. cbn in H4. apply andb_true_iff in H4 as [H4 _]. apply negb_true_iff in H4.
  exists x. cbn [join_sl]. destruct r; eexists; split; try reflexivity; exact H4.
Qed.

(* ... and neither is the last one *)
Lemma nosl_last c : c <> [] -> nosl c -> exists p z, c = p ++ [z] /\ is_sl z = false.
Proof.
  intros Hne Hn. destruct (exists_last Hne) as (p & z & ->). exists p, z. split; [reflexivity|].
  unfold nosl in Hn. rewrite forallb_app in Hn. apply andb_true_iff in Hn as [_ Hn]. cbn in Hn.
  rewrite andb_true_r in Hn. apply negb_true_iff in Hn. exact Hn.
Qed.

Lemma join_plain_last l : l <> [] -> Forall plainc l ->
  exists p z, join_sl l = p ++ [z] /\ is_sl z = false.
Proof.
  induction l as [|c r IH]; intros Hne HF; [congruence|]. inversion HF as [|? ? Hc Hr]; subst.
  destruct r as [|d r'].
  - cbn. destruct Hc as (H1 & _ & _ & H4). apply nosl_last; assumption.
  - destruct (IH ltac:(discriminate) Hr) as (p & z & E & Hz).
    exists (c ++ SL :: p), z. split; [|exact Hz]. cbn [join_sl]. cbn [join_sl] in E. rewrite E.
    rewrite <- app_assoc. reflexivity.
Qed.

(* the absolute normalised path with components [l] *)
Definition abs_of (l : list str) : str := SL :: join_sl l.

Lemma lstrip_abs l : l <> [] -> Forall plainc l -> lstrip_sl (abs_of l) = join_sl l.
Proof.
  intros Hne HF. destruct (join_plain_head l Hne HF) as (x & t & E & Hx).
  unfold lstrip_sl, abs_of. cbn. rewrite E. cbn. rewrite Hx. reflexivity.
Qed.

Lemma rstrip_nosl_end s p z : s = p ++ [z] -> is_sl z = false -> rstrip_sl s = s.
Proof. intros -> Hz. unfold rstrip_sl. rewrite rev_app_distr. cbn. rewrite Hz. cbn.
  rewrite rev_involutive. reflexivity. Qed.

Lemma rstrip_abs l : l <> [] -> Forall plainc l -> rstrip_sl (abs_of l) = abs_of l.
Proof.
  intros Hne HF. destruct (join_plain_last l Hne HF) as (p & z & E & Hz).
  apply (rstrip_nosl_end _ (SL :: p) z); [|exact Hz]. unfold abs_of. rewrite E. reflexivity.
Qed.

(* "./a/b" is untouched by strip("/") *)
Lemma strip_dotname l : l <> [] -> Forall plainc l ->
  strip_sl (46%N :: SL :: join_sl l) = 46%N :: SL :: join_sl l.
Proof.
  intros Hne HF. unfold strip_sl. change (lstrip_sl (46%N :: SL :: join_sl l)) with (46%N :: SL :: join_sl l).
  destruct (join_plain_last l Hne HF) as (p & z & E & Hz).
  apply (rstrip_nosl_end _ (46%N :: SL :: p) z); [|exact Hz]. rewrite E. reflexivity.
Qed.

(* normpath("/./a/b") = "/a/b" *)
Lemma normpath_slash_dot l : l <> [] -> Forall plainc l ->
  normpath (SL :: 46%N :: SL :: join_sl l) = abs_of l.
Proof.
  intros Hne HF. unfold normpath, np_comps. cbn [init_slashes]. change (is_sl SL) with true. cbn iota.
  change (is_sl 46) with false. cbn iota.
  change (split_sl (SL :: 46%N :: SL :: join_sl l)) with ([] :: match split_sl (SL :: join_sl l) with h :: t => (46%N :: h) :: t | [] => [[46%N]] end).
  change (split_sl (SL :: join_sl l)) with ([] :: split_sl (join_sl l)).
  rewrite split_join by (auto using plain_nosl). cbn [fold_left].
  change (np_step (0 <? 1) [] []) with (@nil str).
  change (np_step (0 <? 1) [] [46%N]) with (@nil str).
  rewrite fold_plain by assumption. rewrite app_nil_r, rev_involutive.
  cbn [repeat app]. unfold abs_of. reflexivity.
Qed.

(* normpath("/a/b") = "/a/b" *)
Lemma normpath_abs l : l <> [] -> Forall plainc l -> normpath (abs_of l) = abs_of l.
Proof.
  intros Hne HF. destruct (join_plain_head l Hne HF) as (x & t & E & Hx).
  unfold normpath, np_comps, abs_of. rewrite E. cbn [init_slashes]. change (is_sl SL) with true. cbn iota.
  rewrite Hx. rewrite <- E.
  change (split_sl (SL :: join_sl l)) with ([] :: split_sl (join_sl l)).
  rewrite split_join by (auto using plain_nosl). cbn [fold_left].
  change (np_step (0 <? 1) [] []) with (@nil str).
  rewrite fold_plain by assumption. rewrite app_nil_r, rev_involutive. reflexivity.
Qed.

Lemma starts_with_iff pre s : starts_with pre s = true <-> exists rest, s = pre ++ rest.
Proof.
  revert s; induction pre as [|a pre IH]; intros s; cbn.
  - split; [eauto|reflexivity].
  - destruct s as [|b s]; [split; [discriminate|intros (r & H); discriminate]|].
    rewrite andb_true_iff, N.eqb_eq, IH. split.
    + intros (-> & r & ->). eauto.
    + intros (r & H). injection H as -> ->. eauto.
Qed.
