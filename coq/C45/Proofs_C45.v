(* Proofs_C45.v — lemmas and proofs for C45 (security advisories flag exactly the vulnerable installed
   versions).  Sections: the operator table · evaluation of boolean nodes, the four shapes of a range ·
   one range (range_ok) · one entry (affected_is_spec_partial) · pinned tree vs repaired · a slot
   limits a range · witnesses and examples. *)
From Coq Require Import List NArith ZArith Bool Arith Lia.
Import ListNotations.
From Verif Require Import Base.Val C01.Model_C01 C04.Model_C04 C04.Spec_C04 C44.Model_C44 C45.Model_C45 C45.Spec_C45 gen.Tables_C45.
From Verif Require C01.Spec_C01 C01.Proofs_C01 C01.Grammar_C01.
From Verif Require C03.Model_C03.
Local Open Scope N_scope.

(* ------------------------------------------------------------------ the operator table of the source *)
(* every GLSA comparison operator is translated to the version operator the format gives it, and
   nothing else is in the table *)
Definition op_translate_stmt : Prop :=
  assoc [108; 116] op_translate = Some [60] /\ assoc [108; 101] op_translate = Some [60; 61]
  /\ assoc [101; 113] op_translate = Some [61] /\ assoc [103; 101] op_translate = Some [62; 61]
  /\ assoc [103; 116] op_translate = Some [62] /\ length op_translate = 5%nat.
Lemma op_translate_is_glsa_proof : op_translate_stmt.
Proof. repeat split; reflexivity. Qed.

(* ------------------------------------------------------------------ evaluation of the boolean nodes *)
Definition gall (l : list gr) (p : ipkg) : bool := forallb (fun g => geval g p) l.

Lemma gand_eval l neg p : geval (GAnd l neg) p = xorb (gall l p) neg.
Proof. reflexivity. Qed.

Lemma gor_eval l p : geval (GOr l) p = existsb (fun g => geval g p) l.
Proof. reflexivity. Qed.

Definition slot_ok (slot : str) (p : package) : bool := is_nil slot || str_eqb slot (p_slot p).

Lemma slot_restr_eval slot p : gall (slot_restr slot) p = slot_ok slot (i_pkg p).
Proof. unfold slot_restr, slot_ok. destruct (is_nil slot); cbn; [reflexivity|]. apply andb_true_r. Qed.

Lemma gall_app a b p : gall (a ++ b) p = gall a p && gall b p.
Proof. apply forallb_app. Qed.

Lemma lookup_op_in k l v : lookup_op k l = Some v -> In (k, v) l.
Proof.
  induction l as [|[k' v'] l IH]; cbn [lookup_op]; [discriminate|].
  destruct (str_eqb k k') eqn:E; intros H.
  - injection H as <-. apply str_eqb_eq in E. subst. left; reflexivity.
  - right. apply IH, H.
Qed.

Lemma cmpN_0 n : cmpN n 0 = 0%Z \/ cmpN n 0 = 1%Z.
Proof.
  unfold cmpN, sgn. destruct (N.compare n 0) eqn:E; auto.
  exfalso. apply N.compare_lt_iff in E. exact (N.nlt_0_r _ E).
Qed.

(* ------------------------------------------------------------------ the four shapes of a range *)
Section Shapes.
Variables (p : ipkg) (v : str) (r : option N) (slot : str).
Let pv := p_ver (i_pkg p).
Let pr := p_rev (i_pkg p).
Let base := ver_cmp pv None v None.
Let full := ver_cmp pv pr v r.
Let revc := cmpN (rev_val pr) (rev_val r).
Hypothesis Hcompat : full = if Z.eqb base 0 then revc else base.

Lemma memZ_0 z : memZ z [0%Z] = Z.eqb z 0.
Proof. unfold memZ. cbn. apply orb_false_r. Qed.

Lemma shape_plain opid :
  gall ([GVer opid v r false] ++ slot_restr slot) p
  = slot_ok slot (i_pkg p) && memZ (if op_droprev opid then base else full) (opv opid).
Proof.
  rewrite gall_app, slot_restr_eval. cbn [gall forallb geval]. rewrite andb_true_r, andb_comm. f_equal.
  unfold vmatch. destruct (op_droprev opid); rewrite xorb_false_r; reflexivity.
Qed.

Lemma shape_rev opid : op_droprev opid = false ->
  gall ([GVer 5 v None false] ++ [GVer opid v r false] ++ slot_restr slot) p
  = slot_ok slot (i_pkg p) && (Z.eqb base 0 && memZ revc (opv opid)).
Proof.
  intros Hd. rewrite gall_app, gall_app, slot_restr_eval. cbn [gall forallb geval]. rewrite !andb_true_r.
  unfold vmatch. rewrite Hd. cbn [op_droprev N.eqb Pos.eqb opv]. rewrite !xorb_false_r, memZ_0.
  fold pv pr base full. rewrite Hcompat.
  destruct (Z.eqb base 0); [|rewrite !andb_false_l, andb_false_r; reflexivity].
  rewrite !andb_true_l. apply andb_comm.
Qed.
Lemma shape_plain' opid :
  gall (GVer opid v r false :: slot_restr slot) p
  = slot_ok slot (i_pkg p) && memZ (if op_droprev opid then base else full) (opv opid).
Proof. exact (shape_plain opid). Qed.

Lemma shape_rev' opid : op_droprev opid = false ->
  gall (GVer 5 v None false :: GVer opid v r false :: slot_restr slot) p
  = slot_ok slot (i_pkg p) && (Z.eqb base 0 && memZ revc (opv opid)).
Proof. exact (shape_rev opid). Qed.
End Shapes.

Lemma rev_compat_eq w p : rev_compat w p = true ->
  ver_cmp (p_ver p) (p_rev p) (w_ver w) (w_rev w)
  = if Z.eqb (ver_cmp (p_ver p) None (w_ver w) None) 0
    then cmpN (rev_val (p_rev p)) (rev_val (w_rev w)) else ver_cmp (p_ver p) None (w_ver w) None.
Proof. unfold rev_compat. intros H. apply Z.eqb_eq in H. exact H. Qed.

(* one range: the repaired implementation builds an AND whose members hold exactly when the package
   satisfies the range (outside the known classes) *)
Lemma range_ok rg w neg :
  read_range rg = Some w -> rlt_r0 w = false ->
  exists l, restrict_from_range true rg neg = Some (GAnd l neg) /\
    forall p, glob_disagrees w (i_pkg p) = false -> rev_compat w (i_pkg p) = true ->
      gall l p = range_sat w (i_pkg p).
Proof.
  unfold read_range, restrict_from_range. cbv zeta.
  destruct (glsa_op (strip (g_op rg))) as [[rf c]|] eqn:Eop; [|discriminate].
  destruct (g_text rg) as [txt|]; [|discriminate].
  set (base0 := strip txt). set (glob := ends_star base0).
  set (slot := opt_slot (g_slot rg)).
  destruct glob; cbv iota;
    (match goal with |- context [parse_base ?b] => destruct (parse_base b) as [[[v r] fv]|] end; [|discriminate]).
  all: rename Eop into Eop0; pose proof Eop0 as Eop; clear Eop0.
  all: unfold glsa_op in Eop; apply lookup_op_in in Eop; cbn [glsa_ops In] in Eop.
  all: assert (Hrev : forall P : Prop, (is_nil r = true -> rev_opt r = None -> P) ->
                                  (is_nil r = false -> rev_opt r = Some (int_of r) -> P) -> P)
    by (intros P H1 H2; unfold rev_opt in *; destruct (is_nil r); auto).
  all: repeat (destruct Eop as [Eop|Eop]; [injection Eop as Eo <- <-; rewrite <- Eo|]); try contradiction;
    match goal with |- context [assoc ?a op_translate] =>
      let x := eval vm_compute in (assoc a op_translate) in change (assoc a op_translate) with x end;
    cbn [op_of_text starts_r N.eqb Pos.eqb negb andb orb];
    cbn [andb negb orb str_eqb s_eq s_rlt s_rle s_rge N.eqb Pos.eqb];
    try (intros H; discriminate H);
    intros H Hrlt; injection H as <-;
    unfold rlt_r0 in Hrlt; cbn [w_rev_form w_glob w_cmp w_rev negb andb] in Hrlt.
  all: try (eexists; split; [reflexivity|]; intros p Hg Hr;
            unfold range_sat; cbn [w_slot w_glob w_rev_form w_cmp w_ver w_rev w_fullver];
            fold (slot_ok slot (i_pkg p)); cbn [app]).
  (* lt le eq ge gt, not globbed *)
  2, 3, 4, 5, 6:
    rewrite (shape_plain' p v (rev_opt r) slot); cbn [op_droprev N.eqb Pos.eqb opv]; reflexivity.
  (* eq globbed *)
  - change (GGlob fv :: slot_restr slot) with ([GGlob fv] ++ slot_restr slot).
    rewrite gall_app, slot_restr_eval. cbn [gall forallb geval]. rewrite andb_true_r, andb_comm. f_equal.
    unfold glob_disagrees in Hg. cbn [w_glob w_fullver andb] in Hg.
    apply negb_false_iff, eqb_prop in Hg. exact Hg.
  (* rlt *)
  - apply (Hrev _); intros Hn Hro; rewrite Hro in Hrlt; [discriminate|]. rewrite Hn.
    eexists; split; [reflexivity|]; intros p Hg Hr.
    unfold range_sat; cbn [w_slot w_glob w_rev_form w_cmp w_ver w_rev w_fullver]; fold (slot_ok slot (i_pkg p));
      cbn [app].
    apply rev_compat_eq in Hr. cbn [w_ver w_rev] in Hr.
    rewrite (shape_rev' p v (rev_opt r) slot Hr 0 eq_refl). reflexivity.
  (* rle *)
  - apply (Hrev _); intros Hn Hro; rewrite Hn.
    + eexists; split; [reflexivity|]; intros p Hg Hr.
      unfold range_sat; cbn [w_slot w_glob w_rev_form w_cmp w_ver w_rev w_fullver]; fold (slot_ok slot (i_pkg p));
      cbn [app].
      apply rev_compat_eq in Hr. cbn [w_ver w_rev] in Hr. rewrite Hro in *.
      rewrite (shape_plain' p v None slot). cbn [op_droprev N.eqb Pos.eqb opv]. f_equal.
      rewrite Hr. unfold cmp_holds. cbn [rev_val].
      destruct (Z.eqb (ver_cmp (p_ver (i_pkg p)) None v None) 0) eqn:Eb.
      * destruct (cmpN_0 (rev_val (p_rev (i_pkg p)))) as [-> | ->]; reflexivity.
      * rewrite memZ_0, Eb. reflexivity.
    + eexists; split; [reflexivity|]; intros p Hg Hr.
      unfold range_sat; cbn [w_slot w_glob w_rev_form w_cmp w_ver w_rev w_fullver]; fold (slot_ok slot (i_pkg p));
      cbn [app].
      apply rev_compat_eq in Hr. cbn [w_ver w_rev] in Hr.
      rewrite (shape_rev' p v (rev_opt r) slot Hr 1 eq_refl). reflexivity.
  (* rge *)
  - apply (Hrev _); intros Hn Hro; rewrite Hn.
    + eexists; split; [reflexivity|]; intros p Hg Hr.
      unfold range_sat; cbn [w_slot w_glob w_rev_form w_cmp w_ver w_rev w_fullver]; fold (slot_ok slot (i_pkg p));
      cbn [app].
      rewrite Hro.
      rewrite (shape_plain' p v None slot). cbn [op_droprev N.eqb Pos.eqb opv]. f_equal.
      rewrite memZ_0. unfold cmp_holds. cbn [rev_val].
      destruct (cmpN_0 (rev_val (p_rev (i_pkg p)))) as [-> | ->]; cbn; rewrite andb_true_r; reflexivity.
    + eexists; split; [reflexivity|]; intros p Hg Hr.
      unfold range_sat; cbn [w_slot w_glob w_rev_form w_cmp w_ver w_rev w_fullver]; fold (slot_ok slot (i_pkg p));
      cbn [app].
      apply rev_compat_eq in Hr. cbn [w_ver w_rev] in Hr.
      rewrite (shape_rev' p v (rev_opt r) slot Hr 3 eq_refl). reflexivity.
  (* rgt *)
  - assert (Hsame : (if is_nil r then false else false) = false) by (destruct (is_nil r); reflexivity).
    destruct (is_nil r);
      (eexists; split; [reflexivity|]; intros p Hg Hr;
       unfold range_sat; cbn [w_slot w_glob w_rev_form w_cmp w_ver w_rev w_fullver]; fold (slot_ok slot (i_pkg p));
       cbn [app];
       apply rev_compat_eq in Hr; cbn [w_ver w_rev] in Hr;
       rewrite (shape_rev' p v (rev_opt r) slot Hr 4 eq_refl); reflexivity).
Qed.

Definition good (w : wrange) (p : ipkg) : Prop :=
  glob_disagrees w (i_pkg p) = false /\ rev_compat w (i_pkg p) = true.
Definition is_gand (neg : bool) (g : gr) : Prop := exists l, g = GAnd l neg.

Lemma ranges_ok neg : forall rgs ws,
  all_some (map read_range rgs) = Some ws ->
  (forall w, In w ws -> rlt_r0 w = false) ->
  exists gl, all_some (map (fun r => restrict_from_range true r neg) rgs) = Some gl
    /\ Forall (is_gand neg) gl
    /\ forall p, (forall w, In w ws -> good w p) ->
         map (fun g => geval g p) gl = map (fun w => xorb (range_sat w (i_pkg p)) neg) ws.
Proof.
  induction rgs as [|rg rgs IH]; intros ws H Hr.
  - injection H as <-. exists []. repeat split; constructor.
  - cbn [map all_some] in H. destruct (read_range rg) as [w|] eqn:Ew; [|discriminate].
    destruct (all_some (map read_range rgs)) as [ws'|] eqn:Ews; [|discriminate]. injection H as <-.
    destruct (range_ok rg w neg Ew (Hr w (or_introl eq_refl))) as (l & Hl & Hev).
    destruct (IH ws' eq_refl (fun w' Hi => Hr w' (or_intror Hi))) as (gl & Hgl & Hf & Hm).
    exists (GAnd l neg :: gl). cbn [map all_some]. rewrite Hl, Hgl. split; [reflexivity|]. split.
    + constructor; [exists l; reflexivity|exact Hf].
    + intros p Hg. cbn [map]. rewrite gand_eval. f_equal.
      * f_equal. apply Hev; apply (Hg w (or_introl eq_refl)).
      * apply Hm. intros w' Hi. apply Hg. right. exact Hi.
Qed.

Lemma existsb_map' {A} (f : A -> bool) l : existsb f l = existsb (fun b => b) (map f l).
Proof. induction l as [|x l IH]; [reflexivity|]. cbn. rewrite IH. reflexivity. Qed.
Lemma forallb_map' {A} (f : A -> bool) l : forallb f l = forallb (fun b => b) (map f l).
Proof. induction l as [|x l IH]; [reflexivity|]. cbn. rewrite IH. reflexivity. Qed.

Lemma forallb_ext' {A} (f g : A -> bool) l : (forall x, f x = g x) -> forallb f l = forallb g l.
Proof. intros H. induction l as [|x l IH]; [reflexivity|]. cbn. rewrite H, IH. reflexivity. Qed.
Lemma existsb_ext' {A} (f g : A -> bool) l : (forall x, f x = g x) -> existsb f l = existsb g l.
Proof. intros H. induction l as [|x l IH]; [reflexivity|]. cbn. rewrite H, IH. reflexivity. Qed.

Lemma filter_gand vl il : Forall (is_gand true) il ->
  filter (fun x => negb (in_vuln_list x vl)) il = il.
Proof.
  induction 1 as [|g il [l ->] _ IH]; [reflexivity|]. cbn [filter in_vuln_list negb]. rewrite IH. reflexivity.
Qed.

Lemma vuln0_eval vl p : vl <> [] ->
  geval (match vl with [x] => x | _ => GOr vl end) p = existsb (fun g => geval g p) vl.
Proof.
  destruct vl as [|x [|y vl]]; intros H; [contradiction| |reflexivity].
  cbn [existsb]. rewrite orb_false_r. reflexivity.
Qed.

Lemma existsb_false_all {A} (f : A -> bool) l : existsb f l = false -> forall x, In x l -> f x = false.
Proof.
  induction l as [|y l IH]; intros H x Hi; [contradiction|]. cbn in H. apply orb_false_iff in H as [H1 H2].
  destruct Hi as [<-|Hi]; [exact H1|apply IH; assumption].
Qed.

(* the repaired implementation flags exactly the affected packages, outside the known classes *)
Lemma affected_is_spec_under_compat : forall e p,
  read_entry e <> None -> known_class e p = false -> revs_compat e p = true ->
  flagged true e p = affected_spec e p.
Proof.
  intros e p Hre Hk Hrc. unfold affected_spec, known_class, revs_compat in *.
  destruct (read_entry e) as [[[a vs] us]|] eqn:Er; [|contradiction]. clear Hre.
  cbn [known_of revs_compat_of affected_of] in *.
  assert (Hgood : forall w, In w (vs ++ us) -> good w p /\ rlt_r0 w = false).
  { intros w Hi. pose proof (existsb_false_all _ _ Hk w Hi) as H1. apply orb_false_iff in H1 as [H1 H2].
    rewrite forallb_forall in Hrc. repeat split; auto. }
  unfold read_entry in Er.
  destruct (name_atom e) as [a'|] eqn:En; [|discriminate].
  destruct (all_some (map read_range (n_vuln e))) as [[|v vs']|] eqn:Ev; try discriminate.
  destruct (all_some (map read_range (n_unaff e))) as [us'|] eqn:Eu; [|discriminate].
  injection Er as <- <- <-.
  destruct (ranges_ok false _ _ Ev (fun w Hi => proj2 (Hgood w (in_or_app _ _ _ (or_introl Hi)))))
    as (vl & Hvl & _ & Hvm).
  destruct (ranges_ok true _ _ Eu (fun w Hi => proj2 (Hgood w (in_or_app _ _ _ (or_intror Hi)))))
    as (il & Hil & Hig & Him).
  specialize (Hvm p (fun w Hi => proj1 (Hgood w (in_or_app _ _ _ (or_introl Hi))))).
  specialize (Him p (fun w Hi => proj1 (Hgood w (in_or_app _ _ _ (or_intror Hi))))).
  assert (Hvne : vl <> []).
  { intros ->. cbn in Hvm. discriminate. }
  unfold flagged, advisory_entry, intersects.
  destruct (n_vuln e) as [|rg0 rgs0] eqn:Env; [cbn in Ev; discriminate Ev|].
  rewrite Hvl, Hil.
  rewrite (filter_gand vl il Hig).
  unfold name_atom in En.
  destruct (Model_C03.parse_atom None false (strip (n_name e))) as [a0| |]; try discriminate.
  destruct (Model_C03.a_transitive a0); [discriminate|]. injection En as <-.
  rewrite gand_eval, xorb_false_r. change (gall (?x :: il) p) with (geval x p && gall il p).
  assert (Hu : gall il p = forallb (fun w => negb (range_sat w (i_pkg p))) us').
  { unfold gall. rewrite forallb_map', Him, <- forallb_map'. apply forallb_ext'. intros w. apply xorb_true_r. }
  assert (Hv : existsb (fun g => geval g p) vl = existsb (fun w => range_sat w (i_pkg p)) (v :: vs')).
  { rewrite existsb_map', Hvm, <- existsb_map'. apply existsb_ext'. intros w. apply xorb_false_r. }
  rewrite Hu. unfold arch_of, arch_ok.
  destruct (n_arch e) as [s|].
  - destruct (is_nil (words (strip s)) || smem [c_star] (words (strip s))) eqn:Ea.
    + rewrite (vuln0_eval vl p Hvne), Hv. cbn [orb]. rewrite andb_true_r, andb_assoc. reflexivity.
    + rewrite gand_eval, xorb_false_r. cbn [gall forallb geval]. rewrite (vuln0_eval vl p Hvne), Hv, andb_true_r.
      cbn [orb].
      set (b1 := atom_match _ _ _). set (b2 := existsb _ (v :: vs')). set (b3 := existsb _ (words _)).
      set (b4 := forallb _ us'). destruct b1, b2, b3, b4; reflexivity.
  - rewrite (vuln0_eval vl p Hvne), Hv, andb_true_r, andb_assoc. reflexivity.
Qed.

(* ------------------------------------------------------------------ the revision is the last tie-breaker *)
Lemma pms_rev_last a ra b rb :
  Spec_C01.pms_cmp a ra b rb
  = if Z.eqb (Spec_C01.pms_cmp a 0 b 0) 0 then cmpN ra rb else Spec_C01.pms_cmp a 0 b 0.
Proof.
  unfold Spec_C01.pms_cmp.
  destruct (Z.eqb (Spec_C01.pms_nums (Spec_C01.nums a) (Spec_C01.nums b)) 0) eqn:E1; cbn [negb];
    [|rewrite E1; reflexivity].
  destruct (Z.eqb (Spec_C01.pms_letter (Spec_C01.letter a) (Spec_C01.letter b)) 0) eqn:E2; cbn [negb];
    [|rewrite E2; reflexivity].
  destruct (Z.eqb (Spec_C01.pms_sufs (Spec_C01.sufs a) (Spec_C01.sufs b)) 0) eqn:E3; cbn [negb];
    [|rewrite E3; reflexivity].
  reflexivity.
Qed.

(* for all valid versions: comparing with revisions = comparing without, and by revision on a tie *)
Lemma rev_last_tiebreak_proof : forall v1 v2 r1 r2,
  valid_version_core v1 = true -> valid_version_core v2 = true ->
  ver_cmp v1 r1 v2 r2
  = if Z.eqb (ver_cmp v1 None v2 None) 0 then cmpN (rev_val r1) (rev_val r2) else ver_cmp v1 None v2 None.
Proof.
  intros v1 v2 r1 r2 H1 H2.
  apply Grammar_C01.valid_core_is_version in H1 as (a & Ha & <-).
  apply Grammar_C01.valid_core_is_version in H2 as (b & Hb & <-).
  rewrite !Proofs_C01.ver_cmp_is_pms_proof by assumption. cbn [rev_val]. apply pms_rev_last.
Qed.

Lemma rev_compat_valid w p :
  valid_version_core (p_ver p) = true -> valid_version_core (w_ver w) = true -> rev_compat w p = true.
Proof. intros H1 H2. unfold rev_compat. apply Z.eqb_eq. apply rev_last_tiebreak_proof; assumption. Qed.

Lemma revs_compat_valid e p : versions_valid e p = true -> revs_compat e p = true.
Proof.
  unfold versions_valid, revs_compat, versions_valid_of, revs_compat_of. intros H.
  apply andb_true_iff in H as [Hp H]. destruct (read_entry e) as [[[a vs] us]|]; [|reflexivity].
  rewrite forallb_forall in *. intros w Hi. apply rev_compat_valid; [exact Hp|apply H, Hi].
Qed.

(* the repaired implementation flags exactly the affected packages: every GLSA-format entry, every
   installed package, all versions valid, outside the known classes *)
Lemma affected_is_spec_partial_proof : forall e p,
  read_entry e <> None -> known_class e p = false -> versions_valid e p = true ->
  flagged true e p = affected_spec e p.
Proof.
  intros e p H1 H2 H3. apply affected_is_spec_under_compat; [exact H1|exact H2|apply revs_compat_valid, H3].
Qed.

(* ------------------------------------------------------------------ pinned tree vs repaired *)
(* the raw shape of the ranges on which the pinned tree is known to differ: a slot on a glob or on
   rle / rge, and an unaffected ([neg]) glob *)
Definition raw_pinned (rg : range) (neg : bool) : bool :=
  let slotted := negb (is_nil (opt_slot (g_slot rg))) in
  let globbed := match g_text rg with Some t => ends_star (strip t) | None => false end in
  let op := strip (g_op rg) in
  (slotted && (globbed || str_eqb op s_rle || str_eqb op s_rge)) || (neg && globbed).

Definition not_glob (g : gr) : Prop := match g with GGlob _ => False | _ => True end.
Definition rel (neg : bool) (a b : option gr) : Prop :=
  match a, b with
  | Some g, Some g' => (forall p, geval g p = geval g' p) /\ (neg = true -> not_glob g) /\ is_gand neg g'
  | None, None => True
  | _, _ => False
  end.

Lemma range_orig_fixed rg neg : raw_pinned rg neg = false ->
  rel neg (restrict_from_range false rg neg) (restrict_from_range true rg neg).
Proof.
  unfold raw_pinned, restrict_from_range. cbv zeta.
  set (op := strip (g_op rg)). set (slot := opt_slot (g_slot rg)).
  destruct (assoc (lstrip_r op) op_translate) as [optxt|]; [|intros _; exact I].
  destruct (g_text rg) as [txt|]; [|intros _; exact I].
  set (base0 := strip txt).
  destruct (ends_star base0) eqn:Eg; cbv iota.
  - (* glob *)
    rewrite orb_true_l, !andb_true_r. intros H. apply orb_false_iff in H as [Hs Hn].
    apply negb_false_iff in Hs. subst neg.
    destruct (parse_base (removelast base0)) as [[[v r] fv]|]; [|exact I].
    destruct (negb (str_eqb op s_eq)); [exact I|].
    unfold slot_restr. rewrite Hs. cbn [rel]. split; [|split].
    + intros p. rewrite gand_eval. cbn. rewrite andb_true_r, xorb_false_r. reflexivity.
    + discriminate.
    + eexists; reflexivity.
  - rewrite andb_false_r, orb_false_r, orb_false_l. intros H.
    destruct (parse_base base0) as [[[v r] fv]|]; [|exact I].
    destruct (op_of_text optxt) as [opid|]; [|exact I].
    destruct (starts_r op && is_nil r && str_eqb op s_rlt); [exact I|].
    assert (Hslot : forall b, b = true -> (str_eqb op s_rle || str_eqb op s_rge) = b -> slot_restr slot = []).
    { intros b -> Hb. rewrite Hb, andb_true_r in H. apply negb_false_iff in H. unfold slot_restr. rewrite H. reflexivity. }
    destruct (starts_r op && is_nil r && str_eqb op s_rle) eqn:E1.
    + apply andb_true_iff in E1 as [_ E1]. rewrite (Hslot true eq_refl (f_equal (fun b => b || _) E1)).
      cbn [rel]. split; [|split].
      * intros p. rewrite gand_eval. cbn [gall forallb geval]. unfold vmatch. cbn.
        rewrite andb_true_r, xorb_false_r. reflexivity.
      * intros _. exact I.
      * eexists; reflexivity.
    + destruct (starts_r op && is_nil r && str_eqb op s_rge) eqn:E2.
      * apply andb_true_iff in E2 as [_ E2].
        assert (E3 : (str_eqb op s_rle || str_eqb op s_rge) = true) by (rewrite E2; apply orb_true_r).
        rewrite (Hslot true eq_refl E3). cbn [rel]. split; [|split].
        -- intros p. rewrite gand_eval. cbn [gall forallb geval]. unfold vmatch. cbn.
           rewrite andb_true_r, xorb_false_r. reflexivity.
        -- intros _. exact I.
        -- eexists; reflexivity.
      * cbn [rel]. split; [reflexivity|]. split; [intros _; exact I|eexists; reflexivity].
Qed.

Lemma ranges_orig_fixed neg : forall rgs,
  (forall rg, In rg rgs -> raw_pinned rg neg = false) ->
  match all_some (map (fun r => restrict_from_range false r neg) rgs),
        all_some (map (fun r => restrict_from_range true r neg) rgs) with
  | Some gl, Some gl' =>
      Forall2 (fun g g' => (forall p, geval g p = geval g' p) /\ (neg = true -> not_glob g) /\ is_gand neg g') gl gl'
  | None, None => True
  | _, _ => False
  end.
Proof.
  induction rgs as [|rg rgs IH]; intros H; [constructor|].
  cbn [map all_some].
  pose proof (range_orig_fixed rg neg (H rg (or_introl eq_refl))) as Hr.
  specialize (IH (fun rg' Hi => H rg' (or_intror Hi))).
  destruct (restrict_from_range false rg neg) as [g|], (restrict_from_range true rg neg) as [g'|];
    cbn [rel] in Hr; try contradiction; [|exact I].
  destruct (all_some (map (fun r => restrict_from_range false r neg) rgs)) as [gl|],
           (all_some (map (fun r => restrict_from_range true r neg) rgs)) as [gl'|]; try contradiction; [|exact I].
  constructor; assumption.
Qed.

Lemma filter_not_glob vl il : Forall not_glob il -> filter (fun x => negb (in_vuln_list x vl)) il = il.
Proof.
  induction 1 as [|g il Hg _ IH]; [reflexivity|]. cbn [filter].
  destruct g; cbn in Hg; try contradiction; cbn [in_vuln_list negb]; rewrite IH; reflexivity.
Qed.

Lemma forall2_gall gl gl' p :
  Forall2 (fun g g' => (forall p, geval g p = geval g' p) /\ (true = true -> not_glob g) /\ is_gand true g') gl gl' ->
  gall gl p = gall gl' p /\ Forall not_glob gl /\ Forall (is_gand true) gl'.
Proof.
  induction 1 as [|g g' gl gl' (H1 & H2 & H3) _ (IH1 & IH2 & IH3)]; [repeat split; constructor|].
  cbn [gall forallb]. fold (gall gl p) (gall gl' p). rewrite H1, IH1. repeat split; constructor; auto.
Qed.

Lemma forall2_any gl gl' p neg :
  Forall2 (fun g g' => (forall p, geval g p = geval g' p) /\ (neg = true -> not_glob g) /\ is_gand neg g') gl gl' ->
  existsb (fun g => geval g p) gl = existsb (fun g => geval g p) gl' /\ (gl = [] <-> gl' = []).
Proof.
  induction 1 as [|g g' gl gl' (H1 & _) _ (IH & _)]; [split; [reflexivity|tauto]|].
  cbn [existsb]. rewrite H1, IH. split; [reflexivity|]. split; discriminate.
Qed.

Lemma vuln0_eval' vl p : vl <> [] ->
  geval (match vl with [x] => x | _ => GOr vl end) p = existsb (fun g => geval g p) vl.
Proof. apply vuln0_eval. Qed.

Lemma all_some_cons_ne {A B} (f : A -> option B) x l vl :
  all_some (map f (x :: l)) = Some vl -> vl <> [].
Proof.
  cbn [map all_some]. destruct (f x); [|discriminate]. destruct (all_some (map f l)); [|discriminate].
  intros H; injection H as <-. discriminate.
Qed.

Definition entry_not_pinned (e : entry) : Prop :=
  (forall rg, In rg (n_vuln e) -> raw_pinned rg false = false)
  /\ (forall rg, In rg (n_unaff e) -> raw_pinned rg true = false).

Lemma orig_is_fixed_partial_proof : forall e p, entry_not_pinned e -> flagged false e p = flagged true e p.
Proof.
  intros e p [Hv Hu]. unfold flagged, advisory_entry, intersects.
  destruct (n_vuln e) as [|rg0 rgs0] eqn:Env; [reflexivity|].
  pose proof (ranges_orig_fixed false (rg0 :: rgs0) Hv) as Rv.
  pose proof (ranges_orig_fixed true (n_unaff e) Hu) as Ru.
  destruct (all_some (map (fun r => restrict_from_range false r false) (rg0 :: rgs0))) as [vl|] eqn:E1,
           (all_some (map (fun r => restrict_from_range true r false) (rg0 :: rgs0))) as [vl'|] eqn:E2;
    try contradiction; [|reflexivity].
  destruct (all_some (map (fun r => restrict_from_range false r true) (n_unaff e))) as [il|],
           (all_some (map (fun r => restrict_from_range true r true) (n_unaff e))) as [il'|];
    try contradiction; [|reflexivity].
  destruct (forall2_gall il il' p Ru) as (Hil & Hng & Hga).
  destruct (forall2_any vl vl' p false Rv) as (Hvl & Hnil).
  rewrite (filter_not_glob vl il Hng), (filter_gand vl' il' Hga).
  destruct (Model_C03.parse_atom None false (strip (n_name e))) as [a| |]; try reflexivity.
  destruct (Model_C03.a_transitive a); [reflexivity|]. f_equal.
  rewrite !gand_eval. f_equal. change (gall (?x :: ?l) p) with (geval x p && gall l p). rewrite Hil. f_equal.
  assert (Hne : vl <> [] /\ vl' <> []).
  { split; [apply (all_some_cons_ne _ _ _ _ E1)|apply (all_some_cons_ne _ _ _ _ E2)]. }
  destruct (arch_of (n_arch e)).
  - rewrite !gand_eval. f_equal. cbn [gall forallb]. f_equal.
    rewrite (vuln0_eval vl p (proj1 Hne)), (vuln0_eval vl' p (proj2 Hne)). exact Hvl.
  - rewrite (vuln0_eval vl p (proj1 Hne)), (vuln0_eval vl' p (proj2 Hne)). exact Hvl.
Qed.

(* ------------------------------------------------------------------ a slot attribute limits a range of any kind *)
Lemma gall_slot_false l slot p :
  is_nil slot = false -> str_eqb slot (p_slot (i_pkg p)) = false -> gall (l ++ slot_restr slot) p = false.
Proof.
  intros H1 H2. rewrite gall_app, slot_restr_eval. unfold slot_ok. rewrite H1, H2. apply andb_false_r.
Qed.

Lemma slot_limits_range_proof : forall rg neg g p,
  restrict_from_range true rg neg = Some g ->
  is_nil (opt_slot (g_slot rg)) = false ->
  str_eqb (opt_slot (g_slot rg)) (p_slot (i_pkg p)) = false ->
  geval g p = neg.
Proof.
  intros rg neg g p H H1 H2. unfold restrict_from_range in H. cbv zeta in H.
  set (slot := opt_slot (g_slot rg)) in *.
  destruct (assoc _ op_translate); [|discriminate].
  destruct (g_text rg) as [txt|]; [|discriminate].
  destruct (parse_base _) as [[[v r] fv]|]; [|discriminate].
  assert (G : forall l, geval (GAnd (l ++ slot_restr slot) neg) p = neg).
  { intros l. rewrite gand_eval, (gall_slot_false l slot p H1 H2). destruct neg; reflexivity. }
  destruct (ends_star _).
  - destruct (negb _); [discriminate|]. injection H as <-. apply (G [GGlob fv]).
  - destruct (op_of_text _); [|discriminate].
    destruct (starts_r (strip (g_op rg)));
    repeat match type of H with (if ?c then _ else _) = _ => destruct c end; try discriminate;
      injection H as <-; first [apply (G [_; _]) | apply (G [_])].
Qed.

(* ------------------------------------------------------------------ witnesses *)
Arguments P (c n v)%bs_scope r (fv sl ss repo)%bs_scope kw.
Arguments R (op)%bs_scope slot text.
Arguments E (name)%bs_scope arch vuln unaff.
Definition pk (v : bstr) (r : option N) (fv sl : bstr) (kw : list bstr) : ipkg := P "a" "b" v r fv sl sl "vdb" kw.
Arguments pk (v)%bs_scope r (fv sl)%bs_scope kw.
Definition b05 := pk "0.5" None "0.5" "0" ["x86"%bs].
Definition b10 := pk "1.0" None "1.0" "0" ["x86"%bs].
Definition b10r1_s1 := pk "1.0" (Some 1) "1.0-r1" "1" ["x86"%bs].
Definition b15 := pk "1.5" None "1.5" "0" ["arm"%bs].
Definition b10_big := pk "10" None "10" "0" ["x86"%bs].

(* K1: vulnerable < 2.0, unaffected = 1.0* *)
Definition e_k1 := E "a/b" None [R "lt" None (Some "2.0"%bs)] [R "eq" None (Some "1.0*"%bs)].
(* K2: vulnerable rge 1.0 in slot 1 only *)
Definition e_k2 := E "a/b" None [R "rge" (Some "1"%bs) (Some "1.0"%bs)] [].
(* K3: vulnerable = 1* *)
Definition e_k3 := E "a/b" None [R "eq" None (Some "1*"%bs)] [].
(* K4: vulnerable rlt 1.0 (empty) or < 0.9 *)
Definition e_k4 := E "a/b" None [R "rlt" None (Some "1.0"%bs); R "lt" None (Some "0.9"%bs)] [].

(* the full statement (no class excluded), for the pinned tree and for the repaired one *)
Definition C45_full_statement (fix_ : bool) : Prop :=
  forall e p, read_entry e <> None -> versions_valid e p = true -> flagged fix_ e p = affected_spec e p.

Ltac refute e p :=
  let H := fresh in
  intros H; specialize (H e p);
  assert (Hre : read_entry e <> None) by (vm_compute; discriminate);
  assert (Hrc : versions_valid e p = true) by (vm_compute; reflexivity);
  specialize (H Hre Hrc); vm_compute in H; discriminate H.

(* pinned tree, K1: the package that matches the unaffected glob is the one that is flagged *)
Lemma affected_orig_refuted_unaffected_glob_proof :
  ~ C45_full_statement false
  /\ flagged false e_k1 b10 = true /\ affected_spec e_k1 b10 = false
  /\ flagged false e_k1 b05 = false /\ affected_spec e_k1 b05 = true
  /\ known_class e_k1 b10 = false /\ known_class_orig e_k1 b10 = true.
Proof. split; [refute e_k1 b10|]. repeat split; vm_compute; reflexivity. Qed.

(* pinned tree, K2: the slot of an rge range without revision is dropped *)
Lemma affected_orig_refuted_slot_proof :
  flagged false e_k2 b10 = true /\ affected_spec e_k2 b10 = false
  /\ known_class e_k2 b10 = false /\ known_class_orig e_k2 b10 = true
  /\ flagged true e_k2 b10 = false /\ flagged true e_k2 b10r1_s1 = true.
Proof. repeat split; vm_compute; reflexivity. Qed.

(* repaired and pinned alike, K3 and K4 *)
Lemma affected_refuted_glob_prefix_proof :
  ~ C45_full_statement true
  /\ flagged true e_k3 b10_big = true /\ affected_spec e_k3 b10_big = false /\ known_class e_k3 b10_big = true.
Proof. split; [refute e_k3 b10_big|]. repeat split; vm_compute; reflexivity. Qed.

Lemma affected_refuted_rlt_r0_proof :
  flagged true e_k4 b05 = false /\ affected_spec e_k4 b05 = true /\ known_class e_k4 b05 = true.
Proof. repeat split; vm_compute; reflexivity. Qed.

(* ------------------------------------------------------------------ non-vacuity *)
Definition e_ok := E " a/b " (Some "x86 amd64"%bs)
                     [R "rgt" (Some "1"%bs) (Some "1.0"%bs); R "lt" None (Some "1.0"%bs)]
                     [R "ge" None (Some "1.5"%bs); R "eq" (Some "0"%bs) (Some "0.5"%bs)].
Example ex_entry_ok :
  read_entry e_ok <> None /\ entry_not_pinned e_ok
  /\ known_class e_ok b10r1_s1 = false /\ versions_valid e_ok b10r1_s1 = true
  /\ flagged true e_ok b10r1_s1 = true /\ affected_spec e_ok b10r1_s1 = true
  /\ flagged true e_ok b05 = false       (* the unaffected = 0.5 in slot 0 *)
  /\ flagged true e_ok b15 = false       (* >= 1.5 unaffected, and arm *)
  /\ flagged true e_ok b10 = false.      (* 1.0 is not < 1.0, and rgt 1.0 only in slot 1 *)
Proof.
  split; [vm_compute; discriminate|]. split.
  - split; intros rg Hi; unfold e_ok, E in Hi; cbn [n_vuln n_unaff In] in Hi;
      repeat (destruct Hi as [<-|Hi]; [vm_compute; reflexivity|]); contradiction.
  - repeat split; vm_compute; reflexivity.
Qed.
