(* Proofs_C05.v — lemmas and proofs for C05. *)
From Coq Require Import List NArith ZArith Bool Lia.
Import ListNotations.
From Verif Require Import Base.Val C01.Model_C01 C04.Model_C04 C04.Spec_C04 C04.Proofs_C04
  C05.Model_C05 C05.Spec_C05.

(* ------------------------------------------------------------------ symmetry *)
Definition zero_sym (vc : str -> option N -> str -> option N -> Z) : Prop :=
  forall v r w s, Z.eqb (vc v r w s) 0 = Z.eqb (vc w s v r) 0.

Lemma str_eqb_sym a b : str_eqb a b = str_eqb b a.
Proof.
  destruct (str_eqb a b) eqn:E1, (str_eqb b a) eqn:E2; try reflexivity.
  - apply str_eqb_eq in E1; subst. rewrite str_eqb_refl in E2; discriminate.
  - apply str_eqb_eq in E2; subst. rewrite str_eqb_refl in E1; discriminate.
Qed.

Lemma both_differ_sym x y : both_differ x y = both_differ y x.
Proof. destruct x, y; cbn; try reflexivity. rewrite str_eqb_sym; reflexivity. Qed.

Lemma smem_app x l1 l2 : smem x (l1 ++ l2) = smem x l1 || smem x l2.
Proof. unfold smem. apply existsb_app. Qed.

Lemma existsb_ext {A} (f g : A -> bool) l : (forall x, f x = g x) -> existsb f l = existsb g l.
Proof. intro H. induction l as [|x l IH]; cbn; [reflexivity|]. rewrite H, IH; reflexivity. Qed.

Lemma use_flags_conflict_sym ua ub :
  existsb (fun t => match t with 45%N :: f => smem f (use_flags ua ub) | _ => false end) (use_flags ua ub)
  = existsb (fun t => match t with 45%N :: f => smem f (use_flags ub ua) | _ => false end) (use_flags ub ua).
Proof.
  unfold use_flags.
  set (x := filter (fun t => negb (smem t ub)) ua). set (y := filter (fun t => negb (smem t ua)) ub).
  rewrite !existsb_app.
  assert (E : forall t : str, match t with 45%N :: f => smem f (x ++ y) | _ => false end
                         = match t with 45%N :: f => smem f (y ++ x) | _ => false end).
  { intros [|c f]; [reflexivity|]. destruct c as [|q]; [reflexivity|].
    do 6 (try (destruct q as [q|q|]; try reflexivity)).
    rewrite !smem_app. apply orb_comm. }
  rewrite orb_comm. f_equal; apply existsb_ext; intro t; apply E.
Qed.

Lemma use_conflict_sym a b : use_conflict a b = use_conflict b a.
Proof.
  unfold use_conflict. destruct (a_use a) as [[|ta ua]|], (a_use b) as [[|tb ub]|]; try reflexivity.
  apply use_flags_conflict_sym.
Qed.

Lemma attrs_compatible_sym a b : attrs_compatible a b = attrs_compatible b a.
Proof.
  unfold attrs_compatible.
  rewrite (str_eqb_sym (a_cat a)), (str_eqb_sym (a_pkg a)), (both_differ_sym (a_slot a)),
    (both_differ_sym (a_subslot a)), (both_differ_sym (a_repo a)), (use_conflict_sym a b). reflexivity.
Qed.

Lemma op_cases n : (n <= 7)%N ->
  (n = 0 \/ n = 1 \/ n = 2 \/ n = 3 \/ n = 4 \/ n = 5 \/ n = 6 \/ n = 7)%N.
Proof. lia. Qed.

Definition zero_sym_at (vc : str -> option N -> str -> option N -> Z) (a b : atom) : Prop :=
  Z.eqb (vc (a_ver a) (a_rev a) (a_ver b) (a_rev b)) 0 = Z.eqb (vc (a_ver b) (a_rev b) (a_ver a) (a_rev a)) 0.

Lemma version_part_sym vc a b :
  (a_op a = 2%N -> a_op b = 2%N -> zero_sym_at vc a b) -> (a_op a <= 7)%N -> (a_op b <= 7)%N ->
  version_part vc a b = version_part vc b a.
Proof.
  intros Hz Ha Hb.
  unfold version_part, unversioned, has_lt, has_gt, is_ranged, vm, vmatch, has_lt, has_gt.
  destruct (op_cases _ Ha) as [Ea|[Ea|[Ea|[Ea|[Ea|[Ea|[Ea|Ea]]]]]]];
  destruct (op_cases _ Hb) as [Eb|[Eb|[Eb|[Eb|[Eb|[Eb|[Eb|Eb]]]]]]];
  rewrite Ea, Eb; cbn; rewrite ?Ea, ?Eb; cbn; rewrite ?Ea, ?Eb; cbn;
  rewrite ?orb_false_r, ?xorb_false_r; try reflexivity; try apply orb_comm; try apply andb_comm.
  - exact (Hz Ea Eb).
  - rewrite str_eqb_sym. unfold rev_eq. rewrite N.eqb_sym. reflexivity.
Qed.

Lemma intersects_sym_proof : forall vc a b,
  (a_op a = 2%N -> a_op b = 2%N -> zero_sym_at vc a b) -> (a_op a <= 7)%N -> (a_op b <= 7)%N ->
  intersects vc a b = intersects vc b a.
Proof.
  intros vc a b Hz Ha Hb. unfold intersects.
  rewrite (attrs_compatible_sym a b), (version_part_sym vc a b Hz Ha Hb). reflexivity.
Qed.

(* ------------------------------------------------------------------ symmetry for C01's ver_cmp *)
From Verif Require Import C01.Spec_C01 C01.Prop_C01.

Lemma intersects_sym_ver_cmp_proof : forall a b,
  (a_op a = 2%N -> is_version (a_ver a)) -> (a_op b = 2%N -> is_version (a_ver b)) ->
  (a_op a <= 7)%N -> (a_op b <= 7)%N ->
  intersects ver_cmp a b = intersects ver_cmp b a.
Proof.
  intros a b Va Vb Ha Hb. apply intersects_sym_proof; try assumption.
  intros Ea Eb. unfold zero_sym_at.
  destruct (ver_cmp_total_preorder (a_ver a) (a_ver b) (a_ver a) (a_rev a) (a_rev b) (a_rev a)
              (Va Ea) (Vb Eb) (Va Ea)) as [_ [_ [Hanti _]]].
  rewrite Hanti. destruct (ver_cmp (a_ver a) (a_rev a) (a_ver b) (a_rev b)); reflexivity.
Qed.

(* ------------------------------------------------------------------ the shape of ver_cmp in the revisions *)
(* for two version texts the answer is either decided by the texts alone, or it is the
   comparison of the revisions *)
Lemma ver_cmp_shape v w :
  exists k : option Z, forall r s, ver_cmp v r w s = match k with Some c => c | None => rev_cmp r s end.
Proof.
  unfold ver_cmp, ver_cmp_gen. destruct (str_eqb v w); [exists None; reflexivity|].
  destruct (negb (Z.eqb (num_cmp true (hd [] (split_on 95 v)) (hd [] (split_on 95 w))) 0)).
  - eexists (Some _). reflexivity.
  - destruct (suf_loop (tl (split_on 95 v)) (tl (split_on 95 w))) as [c|].
    + exists (Some c); reflexivity.
    + exists None; reflexivity.
Qed.

(* nothing lies strictly between two consecutive revisions of one version text *)
Lemma no_version_between_revisions v ra rb pv pr :
  rev_val rb = (rev_val ra + 1)%N ->
  vmatch ver_cmp 4 false v ra pv pr = true ->       (* p > v-ra *)
  vmatch ver_cmp 0 false v rb pv pr = true ->       (* p < v-rb *)
  False.
Proof.
  intros Hr. unfold vmatch; cbn. rewrite !xorb_false_r, !orb_false_r.
  destruct (ver_cmp_shape pv v) as [k Hk]. rewrite !Hk. destruct k as [c|].
  - intros H1 H2. apply Z.eqb_eq in H1, H2. lia.
  - unfold rev_cmp, cmpN. intros H1 H2. apply Z.eqb_eq in H1, H2.
    destruct (N.compare_spec (rev_val pr) (rev_val ra)), (N.compare_spec (rev_val pr) (rev_val rb));
      cbn in *; try discriminate; lia.
Qed.

(* ------------------------------------------------------------------ refutations (faithful model, C01's ver_cmp) *)
Definition vatom (op : N) (v : str) (r : option N) (fv : str) : atom :=
  {| a_cat := [97]%N; a_pkg := [98]%N; a_op := op; a_ver := v; a_rev := r; a_fullver := Some fv;
     a_slot := None; a_subslot := None; a_slotop := None; a_repo := None; a_use := None;
     a_blocks := false; a_strong := false; a_negate_vers := false |}.
Definition vpkg (v : str) (r : option N) (fv : str) : package :=
  {| p_cat := [97]%N; p_pkg := [98]%N; p_ver := v; p_rev := r; p_fullver := fv;
     p_slot := [48]%N; p_subslot := [48]%N; p_repo := [103]%N; p_use := []; p_iuse := [] |}.

(* ~a/b-1.0 and ~a/b-1.00 both match a/b-1.0 but are reported as disjoint *)
Definition tilde_10 := vatom 5 [49; 46; 48]%N None [49; 46; 48]%N.
Definition tilde_100 := vatom 5 [49; 46; 48; 48]%N None [49; 46; 48; 48]%N.
Definition pkg_10 := vpkg [49; 46; 48]%N None [49; 46; 48]%N.
Lemma complete_refuted_proof :
  atom_match ver_cmp tilde_10 pkg_10 = true /\ atom_match ver_cmp tilde_100 pkg_10 = true
  /\ intersects ver_cmp tilde_10 tilde_100 = false
  /\ ~ complete_stmt ver_cmp.
Proof.
  repeat split; try (vm_compute; reflexivity).
  intro H. specialize (H tilde_10 tilde_100).
  assert (E : intersects ver_cmp tilde_10 tilde_100 = true).
  { apply H. exists pkg_10. split; vm_compute; reflexivity. }
  vm_compute in E. discriminate.
Qed.

(* =a/b-1* and >a/b-2: a/b-10 matches both (the glob by string prefix), reported as disjoint *)
Definition glob_1 := vatom 6 [49]%N None [49]%N.
Definition gt_2 := vatom 4 [50]%N None [50]%N.
Definition pkg_10_ := vpkg [49; 48]%N None [49; 48]%N.
(* =a/b-1.0 and =a/b-1.00*: a/b-1.00 matches both *)
Definition eq_10 := vatom 2 [49; 46; 48]%N None [49; 46; 48]%N.
Definition glob_100 := vatom 6 [49; 46; 48; 48]%N None [49; 46; 48; 48]%N.
Definition pkg_100 := vpkg [49; 46; 48; 48]%N None [49; 46; 48; 48]%N.
Lemma complete_refuted_more :
  (atom_match ver_cmp glob_1 pkg_10_ = true /\ atom_match ver_cmp gt_2 pkg_10_ = true
   /\ intersects ver_cmp glob_1 gt_2 = false)
  /\ (atom_match ver_cmp eq_10 pkg_100 = true /\ atom_match ver_cmp glob_100 pkg_100 = true
      /\ intersects ver_cmp eq_10 glob_100 = false).
Proof. repeat split; vm_compute; reflexivity. Qed.

(* >a/b-1 and <a/b-1-r1 are reported as intersecting; no package matches both *)
Definition gt_1 := vatom 4 [49]%N None [49]%N.
Definition lt_1r1 := vatom 0 [49]%N (Some 1%N) [49; 45; 114; 49]%N.
Lemma witnessed_refuted_proof :
  intersects ver_cmp gt_1 lt_1r1 = true
  /\ (forall p, ~ (atom_match ver_cmp gt_1 p = true /\ atom_match ver_cmp lt_1r1 p = true))
  /\ ~ witnessed_stmt ver_cmp.
Proof.
  assert (Hno : forall p, ~ (atom_match ver_cmp gt_1 p = true /\ atom_match ver_cmp lt_1r1 p = true)).
  { intros p [H1 H2]. unfold atom_match in *. cbn in H1, H2.
    rewrite !andb_true_r in H1, H2.
    apply andb_true_iff in H1 as [_ H1]. apply andb_true_iff in H1 as [_ H1].
    apply andb_true_iff in H2 as [_ H2]. apply andb_true_iff in H2 as [_ H2].
    exact (no_version_between_revisions [49]%N None (Some 1%N) (p_ver p) (p_rev p) eq_refl H1 H2). }
  split; [vm_compute; reflexivity|]. split; [exact Hno|].
  intro H. destruct (H gt_1 lt_1r1) as [p Hp]; [vm_compute; reflexivity|]. exact (Hno p Hp).
Qed.

(* the two reported-as-intersecting pairs of the other unwitnessed classes (no package of the
   harness universe matches both; that part is evidence, not a theorem: package records carry
   fullver and version as independent fields) *)
Definition glob_1r0 := vatom 6 [49]%N (Some 0%N) [49; 45; 114; 48]%N.
Definition use_atom (toks : list str) : atom :=
  {| a_cat := [97]%N; a_pkg := [98]%N; a_op := 7; a_ver := []; a_rev := None; a_fullver := None;
     a_slot := None; a_subslot := None; a_slotop := None; a_repo := None; a_use := Some toks;
     a_blocks := false; a_strong := false; a_negate_vers := false |}.
Example reported_intersecting :
  intersects ver_cmp glob_1r0 tilde_10 = true                                   (* =a/b-1-r0* , ~a/b-1.0 *)
  /\ intersects ver_cmp (use_atom [[120]]%N) (use_atom [[45; 120; 40; 43; 41]]%N) = true   (* [x] , [-x(+)] *)
  /\ intersects ver_cmp (use_atom [[120]]%N) (use_atom [[45; 120]]%N) = false.  (* [x] , [-x] *)
Proof. repeat split; vm_compute; reflexivity. Qed.

(* ------------------------------------------------------------------ completeness by operator cell *)
Section Cells.
Variable vc : str -> option N -> str -> option N -> Z.
Variable okv : str -> Prop.
(* the order laws, in the exact form of C01's theorem ver_cmp_total_preorder *)
Hypothesis Hord : forall v1 v2 v3 r1 r2 r3, okv v1 -> okv v2 -> okv v3 ->
    (vc v1 r1 v2 r2 = (-1)%Z \/ vc v1 r1 v2 r2 = 0%Z \/ vc v1 r1 v2 r2 = 1%Z)
    /\ vc v1 r1 v1 r1 = 0%Z
    /\ vc v2 r2 v1 r1 = (- vc v1 r1 v2 r2)%Z
    /\ ((vc v1 r1 v2 r2 <= 0)%Z -> (vc v2 r2 v3 r3 <= 0)%Z -> (vc v1 r1 v3 r3 <= 0)%Z)
    /\ (vc v1 r1 v2 r2 = 0%Z -> vc v1 r1 v3 r3 = vc v2 r2 v3 r3).

Lemma op_cases4 n : (n <= 4)%N -> (n = 0 \/ n = 1 \/ n = 2 \/ n = 3 \/ n = 4)%N.
Proof. lia. Qed.

(* cells {<,<=,=,>=,>} x {<,<=,=,>=,>}: if one (version, revision) satisfies both restrictions,
   the atoms are reported as intersecting *)
Lemma complete_cells_ordered : forall a b pv pr,
  (a_op a <= 4)%N -> (a_op b <= 4)%N -> okv (a_ver a) -> okv (a_ver b) -> okv pv ->
  vmatch vc (a_op a) false (a_ver a) (a_rev a) pv pr = true ->
  vmatch vc (a_op b) false (a_ver b) (a_rev b) pv pr = true ->
  version_part vc a b = true.
Proof.
  intros a b pv pr Ha Hb Oa Ob Op.
  unfold version_part, unversioned, has_lt, has_gt, is_ranged, vm, vmatch, has_lt, has_gt.
  destruct (Hord pv (a_ver a) (a_ver b) pr (a_rev a) (a_rev b) Op Oa Ob) as [S1 [_ [A1 [T1 C1]]]].
  destruct (Hord pv (a_ver b) (a_ver a) pr (a_rev b) (a_rev a) Op Ob Oa) as [S2 [_ [A2 [T2 C2]]]].
  destruct (Hord (a_ver a) pv (a_ver b) (a_rev a) pr (a_rev b) Oa Op Ob) as [_ [_ [_ [T3 C3]]]].
  destruct (Hord (a_ver b) pv (a_ver a) (a_rev b) pr (a_rev a) Ob Op Oa) as [_ [_ [_ [T4 C4]]]].
  destruct (Hord (a_ver a) (a_ver b) pv (a_rev a) (a_rev b) pr Oa Ob Op) as [S3 [_ [A3 [T5 C5]]]].
  destruct (Hord (a_ver b) (a_ver a) pv (a_rev b) (a_rev a) pr Ob Oa Op) as [_ [_ [_ [T6 C6]]]].
  destruct (op_cases4 _ Ha) as [Ea|[Ea|[Ea|[Ea|Ea]]]];
  destruct (op_cases4 _ Hb) as [Eb|[Eb|[Eb|[Eb|Eb]]]];
  rewrite Ea, Eb; cbn; rewrite ?Ea, ?Eb; cbn; rewrite ?Ea, ?Eb; cbn;
  try (intros; reflexivity);
  set (cPX := vc pv pr (a_ver a) (a_rev a)) in *;
  set (cPY := vc pv pr (a_ver b) (a_rev b)) in *;
  set (cXY := vc (a_ver a) (a_rev a) (a_ver b) (a_rev b)) in *;
  set (cYX := vc (a_ver b) (a_rev b) (a_ver a) (a_rev a)) in *;
  set (cXP := vc (a_ver a) (a_rev a) pv pr) in *;
  set (cYP := vc (a_ver b) (a_rev b) pv pr) in *;
  clearbody cPX cPY cXY cYX cXP cYP;
  intros H1 H2;
  destruct S1 as [e1|[e1|e1]]; rewrite e1 in *; cbn in H1; try discriminate H1;
  destruct S2 as [e2|[e2|e2]]; rewrite e2 in *; cbn in H2; try discriminate H2;
  destruct S3 as [e3|[e3|e3]]; rewrite e3 in *;
  assert (E4 : cYX = (- cXY)%Z) by lia; rewrite ?E4, ?e3; cbn; try reflexivity; exfalso; lia.
Qed.
End Cells.

(* ------------------------------------------------------------------ completeness at the level of intersects *)
Lemma match_facts vc a p :
  wf_atom a = true -> a_negate_vers a = false -> atom_match vc a p = true ->
  str_eqb (a_cat a) (p_cat p) = true /\ str_eqb (a_pkg a) (p_pkg p) = true
  /\ opt_eq (a_slot a) (p_slot p) = true /\ opt_eq (a_subslot a) (p_subslot p) = true
  /\ opt_eq (a_repo a) (p_repo p) = true
  /\ ((a_op a <= 5)%N -> vmatch vc (a_op a) false (a_ver a) (a_rev a) (p_ver p) (p_rev p) = true).
Proof.
  intros Hwf Hneg H. unfold atom_match, atom_restrictions in H. rewrite !forallb_app in H.
  apply andb_true_iff in H as [Hr H]. apply andb_true_iff in H as [Hk H].
  apply andb_true_iff in H as [Hv H]. apply andb_true_iff in H as [Hs _].
  cbn in Hk. rewrite andb_true_r in Hk. apply andb_true_iff in Hk as [Hp Hc].
  unfold wf_atom in Hwf. apply andb_true_iff in Hwf as [Hwf Hsub]. apply andb_true_iff in Hwf as [Hop Hfv].
  repeat split; try assumption.
  - destruct (a_slot a); cbn in *; [apply andb_true_iff in Hs as [Hs _]; exact Hs|reflexivity].
  - destruct (a_slot a), (a_subslot a); cbn in *; try reflexivity; try discriminate.
    apply andb_true_iff in Hs as [_ Hs]. rewrite andb_true_r in Hs. exact Hs.
  - destruct (a_repo a); cbn in *; [rewrite andb_true_r in Hr; exact Hr|reflexivity].
  - intro H5. destruct (a_fullver a) eqn:Efv; cbn in Hfv.
    + destruct (N.eqb (a_op a) 6) eqn:E6; [apply N.eqb_eq in E6; lia|].
      cbn in Hv. rewrite andb_true_r, Hneg in Hv. exact Hv.
    + destruct (N.eqb (a_op a) 7) eqn:E7; [apply N.eqb_eq in E7; lia|discriminate].
Qed.

Lemma opt_eq_both_differ x y s : opt_eq x s = true -> opt_eq y s = true -> both_differ x y = false.
Proof.
  destruct x, y; cbn; try reflexivity. intros H1 H2.
  apply str_eqb_eq in H1, H2. subst. rewrite str_eqb_refl. reflexivity.
Qed.

Lemma str_eqb_via a b s : str_eqb a s = true -> str_eqb b s = true -> str_eqb a b = true.
Proof. intros H1 H2. apply str_eqb_eq in H1, H2. subst. apply str_eqb_refl. Qed.

Section CompleteOrdered.
Variable vc : str -> option N -> str -> option N -> Z.
Variable okv : str -> Prop.
Hypothesis Hord : forall v1 v2 v3 r1 r2 r3, okv v1 -> okv v2 -> okv v3 ->
    (vc v1 r1 v2 r2 = (-1)%Z \/ vc v1 r1 v2 r2 = 0%Z \/ vc v1 r1 v2 r2 = 1%Z)
    /\ vc v1 r1 v1 r1 = 0%Z
    /\ vc v2 r2 v1 r1 = (- vc v1 r1 v2 r2)%Z
    /\ ((vc v1 r1 v2 r2 <= 0)%Z -> (vc v2 r2 v3 r3 <= 0)%Z -> (vc v1 r1 v3 r3 <= 0)%Z)
    /\ (vc v1 r1 v2 r2 = 0%Z -> vc v1 r1 v3 r3 = vc v2 r2 v3 r3).

Definition ordered_or_unversioned (a : atom) : Prop := (a_op a <= 4)%N \/ a_op a = 7%N.

(* completeness, cells {unversioned,<,<=,=,>=,>}^2, atoms of which at most one has USE deps *)
Lemma intersects_complete_partial_proof : forall a b p,
  wf_atom a = true -> wf_atom b = true -> a_negate_vers a = false -> a_negate_vers b = false ->
  ordered_or_unversioned a -> ordered_or_unversioned b ->
  (a_use a = None \/ a_use b = None) ->
  (a_op a <> 7%N -> okv (a_ver a)) -> (a_op b <> 7%N -> okv (a_ver b)) -> okv (p_ver p) ->
  atom_match vc a p = true -> atom_match vc b p = true ->
  intersects vc a b = true.
Proof.
  intros a b p Wa Wb Na Nb Oa Ob Hu Va Vb Vp Ma Mb.
  destruct (match_facts vc a p Wa Na Ma) as [Ac [Ap [As [Ass [Ar Av]]]]].
  destruct (match_facts vc b p Wb Nb Mb) as [Bc [Bp [Bs [Bss [Br Bv]]]]].
  unfold intersects, attrs_compatible.
  rewrite (str_eqb_via _ _ _ Ac Bc), (str_eqb_via _ _ _ Ap Bp).
  rewrite (opt_eq_both_differ _ _ _ As Bs), (opt_eq_both_differ _ _ _ Ass Bss), (opt_eq_both_differ _ _ _ Ar Br).
  assert (Hc : use_conflict a b = false).
  { unfold use_conflict. destruct Hu as [-> | ->]; [reflexivity|]. destruct (a_use a) as [[|? ?]|]; reflexivity. }
  rewrite Hc. cbn.
  destruct Oa as [Oa|Oa]; [|unfold version_part, unversioned; rewrite Oa; reflexivity].
  destruct Ob as [Ob|Ob]; [|unfold version_part, unversioned; rewrite Ob; cbn; rewrite orb_true_r; reflexivity].
  apply (complete_cells_ordered vc okv Hord a b (p_ver p) (p_rev p) Oa Ob); try assumption.
  - apply Va; lia.
  - apply Vb; lia.
  - apply Av; lia.
  - apply Bv; lia.
Qed.
End CompleteOrdered.

(* instantiated with C01: ver_cmp on valid version texts *)
Lemma intersects_complete_partial_ver_cmp_proof : forall a b p,
  wf_atom a = true -> wf_atom b = true -> a_negate_vers a = false -> a_negate_vers b = false ->
  ordered_or_unversioned a -> ordered_or_unversioned b ->
  (a_use a = None \/ a_use b = None) ->
  (a_op a <> 7%N -> is_version (a_ver a)) -> (a_op b <> 7%N -> is_version (a_ver b)) -> is_version (p_ver p) ->
  atom_match ver_cmp a p = true -> atom_match ver_cmp b p = true ->
  intersects ver_cmp a b = true.
Proof. exact (intersects_complete_partial_proof ver_cmp is_version ver_cmp_total_preorder). Qed.

(* non-vacuity: >=a/b-1.0 and <a/b-2 with the package a/b-1.1 *)
Example complete_partial_example :
  let a := vatom 3 [49; 46; 48]%N None [49; 46; 48]%N in
  let b := vatom 0 [50]%N None [50]%N in
  let p := vpkg [49; 46; 49]%N None [49; 46; 49]%N in
  wf_atom a = true /\ wf_atom b = true /\ atom_match ver_cmp a p = true /\ atom_match ver_cmp b p = true
  /\ intersects ver_cmp a b = true.
Proof. repeat split; vm_compute; reflexivity. Qed.
