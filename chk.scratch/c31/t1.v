From Coq Require Import List NArith ZArith Bool.
Import ListNotations.
From Verif Require Import Base.Val C31.Model_C31.
Local Open Scope N_scope.
Definition U0 := mkU [] [].
Definition e1 : env := [([66], PStr [105;116;39;115;92;110]); ([65], PStr [120;32;121]); ([76], PList [[97];[98;34;36]]); (MARKER, PStr [66])].
Eval vm_compute in generate_env_str U0 [] e1.
Eval vm_compute in match generate_env_str U0 [] e1 with inr t => bash_eval t | _ => None end.
Eval vm_compute in match generate_env_str_old U0 [] e1 with inr t => bash_eval t | _ => None end.
Eval vm_compute in reader (frame [65;61;233] ++ [97;10]).
Eval vm_compute in reader (frame_old [65;61;233] ++ [97;10]).
