import subprocess, sys, json, os
WT = "/tmp/wt_C45"
F = WT + "/src/pkgcore/pkgsets/glsa.py"
base = open(F).read()
MUTS = [
 ("M1_table_ge_is_gt", '"ge": ">=",', '"ge": ">",'),
 ("M2_unaffected_not_negated", 'self.generate_restrict_from_range(x, negate=True) for x in invuln', 'self.generate_restrict_from_range(x) for x in invuln'),
 ("M3_vulnerable_and_instead_of_or", 'vuln = packages.OrRestriction(*vuln_list)', 'vuln = packages.AndRestriction(*vuln_list)'),
 ("M4_arch_match_all", 'values.ContainmentMatch(arch, match_all=False)', 'values.ContainmentMatch(arch, match_all=True)'),
 ("M5_r_ops_drop_same_version", '                restrictions.append(atom_restricts.VersionMatch("~", base.version))\n', '                pass\n'),
 ("M6_slot_only_without_revision", '        if slot:\n            restrictions.append(atom_restricts.SlotDep(slot))', '        if slot and not base.revision:\n            restrictions.append(atom_restricts.SlotDep(slot))'),
 ("M7_rev_dropped_in_compare", 'atom_restricts.VersionMatch(restrict, base.version, rev=base.revision),', 'atom_restricts.VersionMatch(restrict, base.version),'),
 ("M8_rle_r0_becomes_tilde", '"=" if op == "rle" else "~"', '"~"'),
 ("M9_arch_star_not_special", 'if not arch or "*" in arch:', 'if not arch:'),
 ("M10_glob_negate_lost_again", '        return packages.AndRestriction(*restrictions, negate=negate)\n\n\ndef find_vulnerable', '        return packages.AndRestriction(*restrictions, negate=negate and not glob)\n\n\ndef find_vulnerable'),
 ("M11_first_unaffected_only", 'invuln = [x for x in invuln_list if x not in vuln_list]', 'invuln = [x for x in invuln_list if x not in vuln_list][:1]'),
 ("H1_harmless_list_comprehension", 'vuln = list(pkg_node.findall("vulnerable"))', 'vuln = [x for x in pkg_node.findall("vulnerable")]'),
 ("H2_harmless_table_order", '        "ge": ">=",\n        "gt": ">",\n', '        "gt": ">",\n        "ge": ">=",\n'),
]
only = sys.argv[1:]
for name, old, new in MUTS:
    if only and name not in only: continue
    assert base.count(old) == 1, (name, base.count(old))
    open(F, "w").write(base.replace(old, new))
    env = dict(os.environ, VERIF_REPO=WT, VERIF_C45_QUICK="1")
    r = subprocess.run(["./check", "C45"], cwd="/verif", env=env, capture_output=True, text=True)
    lines = [l for l in r.stdout.splitlines() if l.startswith(("VIOLATION", "KNOWN", "[C45]"))]
    what = ""
    for l in lines:
        if l.startswith("VIOLATION"):
            rp = l.split("replay=")[1].split()[0]
            d = json.load(open(rp)); what = d["kind"] + ": " + json.dumps(d["detail"])[:260]; break
    print(name, "exit", r.returncode, "|", sum(l.startswith("VIOLATION") for l in lines), "violations |",
          sum(l.startswith("KNOWN") for l in lines), "known |", what, flush=True)
    open(f"{name}.out", "w").write(r.stdout[-3000:])
open(F, "w").write(base)
