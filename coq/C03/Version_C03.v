(* Version_C03.v — the greedy scanner that models isvalid_version_re ([ver_full], Model_C03)
   accepts exactly the PMS 3.2 version syntax as the spec writes it ([pms_version], split-based),
   up to the upper-case letter the regex additionally allows. *)
From Coq Require Import List NArith ZArith Bool Arith Lia.
Import ListNotations.
From Verif Require Import Base.Val gen.Tables_eapi gen.Tables_C03 C03.Model_C03 C03.Spec_C03 C03.Proofs_C03.
Local Open Scope N_scope.

(* ---------------------------------------------------------------- small list facts *)
Lemma drop_while_head p s c t : drop_while p s = c :: t -> p c = false.
Proof.
  induction s as [|x s IH]; cbn; [discriminate|].
  destruct (p x) eqn:E; [exact IH|]. intros H; injection H as <- _. exact E.
Qed.

Lemma drop_while_all p a : forallb p a = true -> drop_while p a = [].
Proof.
  induction a as [|x a IH]; cbn; [reflexivity|]. intros H. apply andb_true_iff in H as [-> H]. auto.
Qed.

Lemma drop_while_stop p a c t : forallb p a = true -> p c = false -> drop_while p (a ++ c :: t) = c :: t.
Proof.
  induction a as [|x a IH]; cbn; intros Ha Hc; [now rewrite Hc|].
  apply andb_true_iff in Ha as [-> Ha]. auto.
Qed.

Lemma strip_prefix_app p r : strip_prefix p (p ++ r) = Some r.
Proof. induction p as [|a p IH]; cbn; [reflexivity|]. now rewrite N.eqb_refl. Qed.

Lemma split_on_cons_inv c s h r :
  split_on c s = h :: r ->
  ~ In c h /\ ((r = [] /\ s = h) \/ (exists s', s = h ++ c :: s' /\ r = split_on c s')).
Proof.
  intros H. pose proof (join_split_on c s) as Hj. rewrite H in Hj.
  assert (Hh : ~ In c h) by (apply (split_on_no_sep c s); rewrite H; now left).
  split; [exact Hh|].
  destruct r as [|r0 rs]; [left; split; [reflexivity | now rewrite <- Hj]|].
  right. exists (join c (r0 :: rs)). split; [now rewrite <- Hj|].
  assert (E : split_on c s = h :: split_on c (join c (r0 :: rs))).
  { rewrite <- Hj at 1. change (join c (h :: r0 :: rs)) with (h ++ c :: join c (r0 :: rs)).
    now apply split_on_app_sep. }
  rewrite H in E. now injection E.
Qed.

Definition digit_str (s : str) : bool := forallb is_digit s.
Lemma digits1_spec s : digits1 s = true <-> s <> [] /\ digit_str s = true.
Proof.
  unfold digits1, nonempty, digit_str. destruct s; cbn [andb]; split.
  - discriminate. - intros [H _]; congruence.
  - intros H; split; [discriminate | exact H]. - intros [_ H]; exact H.
Qed.

(* ---------------------------------------------------------------- suffix names *)
Lemma names_same n : In n suffix_names <-> In n pms_suffix_names.
Proof.
  split; intros H.
  - assert (A : forallb (fun m => existsb (str_eqb m) pms_suffix_names) suffix_names = true) by (vm_compute; reflexivity).
    rewrite forallb_forall in A. specialize (A _ H). apply existsb_exists in A as (m & Hm & E).
    apply str_eqb_eq in E. now subst.
  - assert (A : forallb (fun m => existsb (str_eqb m) suffix_names) pms_suffix_names = true) by (vm_compute; reflexivity).
    rewrite forallb_forall in A. specialize (A _ H). apply existsb_exists in A as (m & Hm & E).
    apply str_eqb_eq in E. now subst.
Qed.

Lemma name_no_us n : In n suffix_names -> ~ In c_us n /\ n <> [].
Proof.
  intros Hn.
  assert (A : forallb (fun m => negb (existsb (N.eqb c_us) m) && negb (is_nil m)) suffix_names = true) by (vm_compute; reflexivity).
  rewrite forallb_forall in A. specialize (A _ Hn). apply andb_true_iff in A as [A B]. split.
  - intros Hin. apply negb_true_iff in A.
    assert (existsb (N.eqb c_us) n = true) by (apply existsb_exists; exists c_us; split; [exact Hin | apply N.eqb_refl]).
    congruence.
  - intros ->. discriminate.
Qed.

Lemma digits_no c s : is_digit c = false -> digit_str s = true -> ~ In c s.
Proof.
  intros Hc Hs Hin. unfold digit_str in Hs. rewrite forallb_forall in Hs. specialize (Hs _ Hin). congruence.
Qed.

Lemma pms_suffix_intro n ds : In n suffix_names -> digit_str ds = true -> pms_suffix (n ++ ds) = true.
Proof.
  intros Hn Hd. unfold pms_suffix. apply existsb_exists. exists n. split; [now apply names_same|].
  now rewrite strip_prefix_app.
Qed.

Lemma pms_suffix_elim x : pms_suffix x = true -> exists n ds, In n suffix_names /\ x = n ++ ds /\ digit_str ds = true.
Proof.
  unfold pms_suffix. intros H. apply existsb_exists in H as (n & Hn & H).
  destruct (strip_prefix n x) as [r|] eqn:E; [|discriminate].
  apply strip_prefix_spec in E. exists n, r. split; [now apply names_same | split; [exact E | exact H]].
Qed.

(* the ordered choice of the scanner picks the same name the grammar means *)
Lemma strip_any_names n ds tail :
  In n suffix_names -> digit_str ds = true ->
  (tail = [] \/ exists t, tail = c_us :: t) ->
  strip_any suffix_names (n ++ ds ++ tail) = Some (ds ++ tail).
Proof.
  intros Hn Hd Ht.
  assert (Hnext : forall k, is_digit k = false -> k <> c_us ->
                            match ds ++ tail with [] => True | x :: _ => x <> k end).
  { intros k Hk Hku. destruct ds as [|d ds']; cbn [app].
    - destruct Ht as [->|[t ->]]; [exact I | congruence].
    - cbn in Hd. apply andb_true_iff in Hd as [Hd _]. intros ->. congruence. }
  unfold suffix_names in *. cbn [In] in Hn.
  destruct Hn as [<-|[<-|[<-|[<-|[<-|[]]]]]]; cbn [app strip_any strip_prefix]; try reflexivity.
  (* n = "p": the longer "pre" must not match *)
  specialize (Hnext 114 eq_refl ltac:(discriminate)).
  destruct (ds ++ tail) as [|x r] eqn:E; [reflexivity|].
  assert (Ex : (114 =? x) = false) by (apply N.eqb_neq; congruence).
  cbn -[N.eqb]. rewrite Ex. reflexivity.
Qed.

(* ---------------------------------------------------------------- the suffix loop *)
Lemma sufs_sound fuel t :
  ver_sufs fuel t = true ->
  t = [] \/ exists t', t = c_us :: t' /\ forallb pms_suffix (split_on c_us t') = true.
Proof.
  revert t; induction fuel as [|f IH]; intros t; destruct t as [|c t0]; cbn [ver_sufs];
    [now left | discriminate | now left |].
  destruct (N.eqb_spec c c_us) as [->|]; [|discriminate].
  destruct (strip_any suffix_names t0) as [r|] eqn:E; [|discriminate].
  apply strip_any_spec in E as (n & Hn & ->).
  intros H. right. eexists; split; [reflexivity|].
  pose proof (take_drop is_digit r) as Htd.
  pose proof (take_wh_all is_digit r) as Hds. fold (digit_str (take_wh is_digit r)) in Hds.
  set (ds := take_wh is_digit r) in *.
  assert (Hnus : ~ In c_us (n ++ ds)).
  { intros Hin. apply in_app_or in Hin as [Hin|Hin]; [exact (proj1 (name_no_us _ Hn) Hin)|].
    exact (digits_no c_us ds eq_refl Hds Hin). }
  destruct (IH _ H) as [E0|(t'' & E0 & Hall)]; rewrite Htd, E0.
  - rewrite app_nil_r. rewrite (split_on_nosep _ _ Hnus). cbn [forallb]. now rewrite (pms_suffix_intro _ _ Hn Hds).
  - rewrite app_assoc, (split_on_app_sep _ _ _ Hnus). cbn [forallb].
    now rewrite (pms_suffix_intro _ _ Hn Hds), Hall.
Qed.

Lemma sufs_complete fuel t' :
  (length t' < fuel)%nat ->
  forallb pms_suffix (split_on c_us t') = true -> ver_sufs fuel (c_us :: t') = true.
Proof.
  revert t'; induction fuel as [|f IH]; intros t' Hlen Hall; [lia|].
  cbn [ver_sufs]. rewrite N.eqb_refl.
  destruct (split_on c_us t') as [|ch chs] eqn:Es; [exfalso; exact (split_on_nonnil _ _ Es)|].
  cbn [forallb] in Hall. apply andb_true_iff in Hall as [Hch Hchs].
  apply pms_suffix_elim in Hch as (n & ds & Hn & -> & Hds).
  apply split_on_cons_inv in Es as [_ [[-> ->]|(s' & -> & ->)]].
  - rewrite <- (app_nil_r ds) at 1. rewrite (strip_any_names n ds [] Hn Hds (or_introl eq_refl)).
    rewrite app_nil_r, (drop_while_all _ _ Hds). destruct f; reflexivity.
  - rewrite <- app_assoc.
    rewrite (strip_any_names n ds (c_us :: s') Hn Hds (or_intror (ex_intro _ s' eq_refl))).
    rewrite (drop_while_stop is_digit ds c_us s' Hds eq_refl).
    apply IH; [|exact Hchs].
    rewrite !app_length in Hlen. cbn [length] in Hlen.
    destruct n as [|? ?]; [exfalso; exact (proj2 (name_no_us _ Hn) eq_refl)|]. cbn [length] in Hlen. lia.
Qed.

(* ---------------------------------------------------------------- the numeric components *)
Definition head_ok (r : str) : Prop :=
  match r with [] => True | c :: _ => is_digit c = false /\ c <> c_dot end.

Lemma join_cons c a l : l <> [] -> join c (a :: l) = a ++ c :: join c l.
Proof. destruct l; [congruence | reflexivity]. Qed.

Lemma nums_sound fuel s r :
  ver_nums fuel s = Some r ->
  exists comps, comps <> [] /\ forallb digits1 comps = true /\ s = join c_dot comps ++ r /\ head_ok r.
Proof.
  revert s r; induction fuel as [|f IH]; intros s r; cbn [ver_nums]; [discriminate|].
  destruct s as [|x t]; [discriminate|].
  destruct (is_digit x) eqn:Ex; [|discriminate].
  pose proof (take_drop is_digit (x :: t)) as Htd.
  pose proof (take_wh_all is_digit (x :: t)) as Hds.
  assert (Hd1 : digits1 (take_wh is_digit (x :: t)) = true).
  { apply digits1_spec. split; [cbn; rewrite Ex; discriminate | exact Hds]. }
  destruct (drop_while is_digit (x :: t)) as [|d r'] eqn:Ed.
  - intros H; injection H as <-. exists [x :: t]. rewrite app_nil_r in Htd. rewrite <- Htd in Hd1.
    repeat split; [discriminate | cbn [forallb]; now rewrite Hd1 | now rewrite app_nil_r].
  - pose proof (drop_while_head _ _ _ _ Ed) as Hdd.
    destruct (N.eqb_spec d c_dot) as [->|Hd].
    + intros H. destruct (IH _ _ H) as (comps & Hne & Hall & -> & Hr).
      exists (take_wh is_digit (x :: t) :: comps). repeat split; [discriminate | | | exact Hr].
      * cbn [forallb]. now rewrite Hd1, Hall.
      * rewrite (join_cons _ _ _ Hne), <- app_assoc. exact Htd.
    + intros H; injection H as <-. exists [take_wh is_digit (x :: t)].
      repeat split; [discriminate | cbn [forallb]; now rewrite Hd1 | exact Htd | exact Hdd | exact Hd].
Qed.

Lemma nums_complete comps r :
  comps <> [] -> forallb digits1 comps = true -> head_ok r ->
  forall fuel, (length (join c_dot comps) < fuel)%nat ->
  ver_nums fuel (join c_dot comps ++ r) = Some r.
Proof.
  intros Hne Hall Hr. induction comps as [|d rest IH]; [congruence|].
  cbn [forallb] in Hall. apply andb_true_iff in Hall as [Hd Hrest].
  apply digits1_spec in Hd as [Hdne Hdd].
  intros fuel Hlen. destruct fuel as [|f]; [lia|]. cbn [ver_nums].
  destruct d as [|x d']; [congruence|].
  assert (Hx : is_digit x = true) by (cbn in Hdd; now apply andb_true_iff in Hdd as [-> _]).
  destruct rest as [|d2 rest'].
  - cbn [join app]. rewrite Hx.
    change (x :: d' ++ r) with ((x :: d') ++ r).
    destruct r as [|c t].
    + rewrite app_nil_r, (drop_while_all _ _ Hdd). reflexivity.
    + destruct Hr as [Hc Hcd]. rewrite (drop_while_stop _ _ _ _ Hdd Hc).
      destruct (N.eqb_spec c c_dot); [congruence | reflexivity].
  - rewrite join_cons by discriminate. rewrite <- app_assoc. cbn [app]. rewrite Hx.
    change (x :: d' ++ c_dot :: join c_dot (d2 :: rest') ++ r)
      with ((x :: d') ++ c_dot :: (join c_dot (d2 :: rest') ++ r)).
    rewrite (drop_while_stop is_digit (x :: d') c_dot _ Hdd eq_refl). rewrite N.eqb_refl.
    apply IH; [discriminate | exact Hrest|].
    rewrite join_cons in Hlen by discriminate. rewrite app_length in Hlen. cbn [length] in Hlen. lia.
Qed.

(* ---------------------------------------------------------------- putting it together *)
Lemma join_digits_no c comps :
  is_digit c = false -> c <> c_dot -> forallb digits1 comps = true -> ~ In c (join c_dot comps).
Proof.
  intros Hc Hd Hall Hin. apply in_join in Hin as [->|(x & Hx & Hy)]; [congruence|].
  rewrite forallb_forall in Hall. specialize (Hall _ Hx). apply digits1_spec in Hall as [_ Hall].
  exact (digits_no _ _ Hc Hall Hy).
Qed.

Lemma split_join_tail comps L :
  comps <> [] -> forallb digits1 comps = true -> ~ In c_dot L ->
  split_on c_dot (join c_dot comps ++ L) = removelast comps ++ [last comps [] ++ L].
Proof.
  intros Hne Hall HL. induction comps as [|d rest IH]; [congruence|].
  cbn [forallb] in Hall. apply andb_true_iff in Hall as [Hd Hrest].
  apply digits1_spec in Hd as [_ Hd].
  assert (Hdd : ~ In c_dot d) by (apply digits_no; [reflexivity | exact Hd]).
  destruct rest as [|d2 rest'].
  - cbn [join removelast last app]. apply split_on_nosep. intros Hin.
    apply in_app_or in Hin as [Hin|Hin]; [exact (Hdd Hin) | exact (HL Hin)].
  - rewrite join_cons by discriminate. rewrite <- app_assoc. cbn [app].
    rewrite (split_on_app_sep _ _ _ Hdd). rewrite IH by (discriminate || exact Hrest). reflexivity.
Qed.

Lemma pc_build comps X :
  forallb digits1 comps = true -> comps <> [] -> pms_last_component X = true ->
  pms_components (removelast comps ++ [X]) = true.
Proof.
  intros Hall Hne HX. induction comps as [|d rest IH]; [congruence|].
  cbn [forallb] in Hall. apply andb_true_iff in Hall as [Hd Hrest].
  destruct rest as [|d2 rest']; [cbn; exact HX|].
  change (removelast (d :: d2 :: rest')) with (d :: removelast (d2 :: rest')). cbn [app].
  specialize (IH Hrest ltac:(discriminate)).
  destruct (removelast (d2 :: rest') ++ [X]) as [|y ys] eqn:E; [now destruct (removelast (d2 :: rest'))|].
  change (pms_components (d :: y :: ys)) with (digits1 d && pms_components (y :: ys)). now rewrite Hd, IH.
Qed.

Lemma last_in {A} (l : list A) d : l <> [] -> In (last l d) l.
Proof.
  intros H. rewrite (app_removelast_last d H) at 2. apply in_or_app. right. now left.
Qed.

Lemma lower_facts c : s_lower c = true ->
  is_digit c = false /\ c <> c_dot /\ c <> c_us /\ c <> c_nl /\ in_ranges ver_letter_class c = true.
Proof.
  intros H. rewrite cls_ver_letter, H. unfold s_lower in H. apply andb_true_iff in H as [H1 H2].
  apply N.leb_le in H1, H2. unfold is_digit, c_dot, c_us, c_nl.
  repeat split; try lia. apply andb_false_iff. right. apply N.leb_gt. lia.
Qed.

(* scanner => PMS syntax, when the optional letter is not upper-case *)
Lemma version_sound v :
  ver_full v = true -> forallb (fun c => negb (s_upper c)) v = true -> pms_version v = true.
Proof.
  unfold ver_full. destruct (ver_nums _ v) as [r|] eqn:En; [|discriminate]. intros Hs Hup.
  apply nums_sound in En as (comps & Hne & Hall & Hv & Hr).
  assert (HL : exists L r', r = L ++ r' /\ ver_letter r = r'
                            /\ (L = [] \/ exists c, L = [c] /\ s_lower c = true)).
  { destruct r as [|c t]; [exists [], []; auto|]. unfold ver_letter.
    destruct (in_ranges ver_letter_class c) eqn:Ec.
    - exists [c], t. repeat split. right. exists c. split; [reflexivity|].
      rewrite cls_ver_letter in Ec. rewrite forallb_forall in Hup.
      assert (Hin : In c v) by (rewrite Hv; apply in_or_app; right; now left).
      specialize (Hup _ Hin). apply negb_true_iff in Hup. rewrite Hup, orb_false_r in Ec. exact Ec.
    - exists [], (c :: t). auto. }
  destruct HL as (L & r' & -> & Hlet & HLs). rewrite Hlet in Hs.
  assert (HLn : ~ In c_us L /\ ~ In c_dot L).
  { destruct HLs as [->|(c & -> & Hc)]; [split; intros []|].
    apply lower_facts in Hc as (_ & H1 & H2 & _). split; intros [E|[]]; congruence. }
  set (h := join c_dot comps ++ L).
  assert (Hh : ~ In c_us h).
  { intros Hin. apply in_app_or in Hin as [Hin|Hin]; [|exact (proj1 HLn Hin)].
    exact (join_digits_no c_us comps eq_refl ltac:(discriminate) Hall Hin). }
  assert (Hcomp : pms_components (split_on c_dot h) = true).
  { unfold h. rewrite (split_join_tail _ _ Hne Hall (proj2 HLn)). apply pc_build; [exact Hall | exact Hne|].
    pose proof (last_in comps [] Hne) as Hin. rewrite forallb_forall in Hall. specialize (Hall _ Hin).
    unfold pms_last_component. destruct HLs as [->|(c & -> & Hc)].
    - now rewrite app_nil_r, Hall.
    - rewrite rev_app_distr. cbn [rev app]. rewrite Hc, rev_involutive, Hall. apply orb_true_r. }
  unfold pms_version. change 95 with c_us. change 46 with c_dot. rewrite Hv, app_assoc. fold h.
  destruct (sufs_sound _ _ Hs) as [->|(t' & -> & Hsuf)].
  - rewrite app_nil_r, (split_on_nosep _ _ Hh). now rewrite Hcomp.
  - rewrite (split_on_app_sep _ _ _ Hh). now rewrite Hcomp, Hsuf.
Qed.

Lemma pc_inv cs :
  pms_components cs = true ->
  exists comps L, comps <> [] /\ forallb digits1 comps = true
                  /\ join c_dot cs = join c_dot comps ++ L
                  /\ (L = [] \/ exists c, L = [c] /\ s_lower c = true).
Proof.
  induction cs as [|x rest IH]; [discriminate|].
  destruct rest as [|y rest'].
  - cbn [pms_components]. unfold pms_last_component. intros H. apply orb_true_iff in H as [H|H].
    + exists [x], []. repeat split; [discriminate | cbn; now rewrite H | now rewrite app_nil_r | now left].
    + destruct (rev x) as [|l r] eqn:Er; [discriminate|]. apply andb_true_iff in H as [Hl Hd].
      exists [rev r], [l]. repeat split; [discriminate | cbn; now rewrite Hd | | right; eauto].
      cbn [join]. rewrite <- (rev_involutive x), Er. reflexivity.
  - intros H. change (pms_components (x :: y :: rest')) with (digits1 x && pms_components (y :: rest')) in H.
    apply andb_true_iff in H as [Hx H]. destruct (IH H) as (comps & L & Hne & Hall & Hj & HL).
    exists (x :: comps), L. repeat split; [discriminate | cbn [forallb]; now rewrite Hx, Hall | | exact HL].
    rewrite (join_cons _ _ _ Hne), join_cons by discriminate. rewrite Hj. now rewrite <- app_assoc.
Qed.

(* PMS syntax => scanner *)
Lemma version_complete v : pms_version v = true -> ver_full v = true.
Proof.
  unfold pms_version. change 95 with c_us. change 46 with c_dot.
  destruct (split_on c_us v) as [|h sufs] eqn:Es; [discriminate|].
  intros H. apply andb_true_iff in H as [Hc Hs].
  apply pc_inv in Hc as (comps & L & Hne & Hall & Hj & HL). rewrite join_split_on in Hj.
  apply split_on_cons_inv in Es as [_ Es].
  assert (Hv : exists rest, v = join c_dot comps ++ L ++ rest
                            /\ (rest = [] \/ exists t', rest = c_us :: t'
                                                        /\ forallb pms_suffix (split_on c_us t') = true)).
  { destruct Es as [[-> ->]|(s' & -> & ->)].
    - exists []. split; [now rewrite app_nil_r | now left].
    - exists (c_us :: s'). split; [now rewrite Hj, <- app_assoc | right; eauto]. }
  destruct Hv as (rest & Hv & Hrest).
  assert (Hhead : head_ok (L ++ rest)).
  { destruct HL as [->|(c & -> & Hc)]; cbn [app head_ok].
    - destruct Hrest as [->|(t' & -> & _)]; [exact I | split; [reflexivity | discriminate]].
    - apply lower_facts in Hc. tauto. }
  unfold ver_full.
  rewrite Hv at 2. rewrite (nums_complete comps (L ++ rest) Hne Hall Hhead).
  2:{ rewrite Hv, app_length. lia. }
  assert (Hlet : ver_letter (L ++ rest) = rest).
  { destruct HL as [->|(c & -> & Hc)]; cbn [app].
    - destruct Hrest as [->|(t' & -> & _)]; reflexivity.
    - unfold ver_letter. apply lower_facts in Hc as (_ & _ & _ & _ & ->). reflexivity. }
  rewrite Hlet. destruct Hrest as [->|(t' & -> & Hsuf)]; [destruct (length v); reflexivity|].
  apply sufs_complete; [|exact Hsuf]. rewrite Hv, !app_length. cbn [length]. lia.
Qed.

Lemma pms_version_no_nl v : pms_version v = true -> ~ In c_nl v.
Proof.
  intros H. apply version_complete in H. unfold ver_full in H.
  destruct (ver_nums _ v) as [r|] eqn:En; [|discriminate].
  apply nums_sound in En as (comps & Hne & Hall & Hv & Hr).
  intros Hin. rewrite Hv in Hin. apply in_app_or in Hin as [Hin|Hin].
  - exact (join_digits_no c_nl comps eq_refl ltac:(discriminate) Hall Hin).
  - assert (Hr' : In c_nl (ver_letter r)).
    { unfold ver_letter. destruct r as [|c t]; [exact Hin|].
      destruct (in_ranges ver_letter_class c) eqn:Ec; [|exact Hin].
      destruct Hin as [->|Hin]; [vm_compute in Ec; discriminate | exact Hin]. }
    clear Hin. revert Hr' H. generalize (ver_letter r) as w. generalize (length v) as fuel.
    induction fuel as [|f IH]; intros w Hin; destruct w as [|c t]; cbn [ver_sufs]; try (destruct Hin; fail); try discriminate.
    destruct (N.eqb_spec c c_us) as [->|]; [|discriminate].
    destruct (strip_any suffix_names t) as [r2|] eqn:E; [|discriminate].
    apply strip_any_spec in E as (n & Hn & ->). intros H.
    destruct Hin as [Hin|Hin]; [discriminate|].
    apply in_app_or in Hin as [Hin|Hin].
    + assert (A : forallb (fun m => negb (existsb (N.eqb c_nl) m)) suffix_names = true) by (vm_compute; reflexivity).
      rewrite forallb_forall in A. specialize (A _ Hn). apply negb_true_iff in A.
      assert (existsb (N.eqb c_nl) n = true) by (apply existsb_exists; exists c_nl; split; [exact Hin | apply N.eqb_refl]).
      congruence.
    + rewrite (take_drop is_digit r2) in Hin. apply in_app_or in Hin as [Hin|Hin].
      * exact (digits_no c_nl _ eq_refl (take_wh_all is_digit r2) Hin).
      * exact (IH _ Hin H).
Qed.

(* the code's version regex = PMS 3.2 (without revision), for text without newline whose letters
   are not upper-case; and every PMS version is accepted by the regex unconditionally *)
Lemma version_agree_proof :
  (forall v, ~ In c_nl v -> forallb (fun c => negb (s_upper c)) v = true -> m_version v = pms_version v)
  /\ (forall v, pms_version v = true -> m_version v = true).
Proof.
  split.
  - intros v Hn Hup. unfold m_version. rewrite (strip_nl_id _ Hn).
    apply eq_true_iff_eq. split; [intros H; now apply version_sound | apply version_complete].
  - intros v H. unfold m_version. rewrite (strip_nl_id _ (pms_version_no_nl _ H)). now apply version_complete.
Qed.
