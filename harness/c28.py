"""C28 — Manifest generation is deterministic, idempotent, parseable and atomic (DESIGN §6 C28).

Streams (model = coq/C28/Model_C28.v, evaluated inside Coq on the same inputs)
  line     digest._manifest_line for every checksum handler / value shape        vs run_line
  text     Manifest.update driven by a FAKE scan (real fsFile/fsDir/fsSymlink objects fed through a
           patched iter_scan: hostile names and locations, any listing order)     vs run_text   (A)
           + spec_text_ok: Model parse of the IMPLEMENTATION's text covers exactly the inputs (B, in Coq)
           + the same inputs in a permuted order give the same bytes (B, Python)
  update   Manifest.update on real package directories (files/ trees, CVS/.svn, stale
           .update.Manifest, existing Manifest in several states), os.listdir shuffled, every
           mutating call traced by harness/fsx.py, then re-run once per call k with a crash before
           call k and with an OSError at call k                                    vs run_update (A)
           + spec_update_ok on the recorded states (B, in Coq)
           + Python oracles on the real tree: every crash state holds the complete old or the
             complete new Manifest; a second shuffle gives the same bytes; a second update writes
             nothing; parse_manifest(new) == the checksums computed here with hashlib
  parse    digest.parse_manifest(ignore_gpg=False) on generated, mutated and hand-written texts
                                                                                  vs run_parse
"""

from __future__ import annotations

import collections
import gc
import hashlib
import json
import os
import random
import shutil
import stat as statmod
import sys

from . import fsx
from .common import VERIF, Check, Err, Raw, cval, impl_call

IMPORTS = ("From Coq Require Import List NArith ZArith Bool.\n"
           "From Verif Require Import Base.Val C18.Fs C28.Model_C28 C28.Spec_C28.")
ANCHORS = ["ebuild/digest.py::_manifest_line", "ebuild/digest.py::convert_chksums",
           "ebuild/digest.py::parse_manifest", "ebuild/digest.py::Manifest.update"]
KINDS = {"KeyError": "KeyError", "MissingChksumHandler": "MissingChksumHandler", "ValueError": "ValueError",
         "ParseChksumError": "ParseChksumError"}
WIDTH = {"blake2b": 128, "blake2s": 64, "md5": 32, "rmd160": 40, "sha1": 40, "sha256": 64, "sha3_256": 64,
         "sha3_512": 128, "sha512": 128}
HASHLIB = {"blake2b": "blake2b", "blake2s": "blake2s", "md5": "md5", "rmd160": "ripemd160", "sha1": "sha1", "sha256": "sha256",
           "sha3_256": "sha3_256", "sha3_512": "sha3_512", "sha512": "sha512"}
UMASK = 0o022
_SAFE = set(range(32, 127)) - {ord(c) for c in '\\"@|;'}


# ------------------------------------------------------------------ Coq term rendering
def esc(s: str) -> str:
    return "".join(c if ord(c) in _SAFE else "\\%x." % ord(c) for c in s)


def bs(s: str) -> str:
    return '"' + s + '"%bs'


def cres(x) -> str:
    if isinstance(x, Err):
        return "(VErr (s2l " + bs(esc(x.kind)) + "))"
    if isinstance(x, str):
        return "(VT " + bs(esc(x)) + ")"
    if isinstance(x, (list, tuple)):
        return "(VL [" + "; ".join(cres(i) for i in x) + "])" if x else "(VL [])"
    return cval(x)


def enc_chks(ck: dict) -> list[str]:
    out = []
    for c, v in ck.items():
        out += [esc(c), "%x" % v]
    return out


def enc_entry(name: str, ck: dict) -> str:
    return ";".join(["=" + esc(name)] + enc_chks(ck))


def enc_scanned(kind: str, loc: str, ck: dict) -> str:
    return ";".join([kind, esc(loc)] + enc_chks(ck))


def enc_opt(x) -> str:
    return "-" if x is None else "+" + esc(x)


def enc_update(thin, mode, chunk, old, stale, scan, fetch) -> str:
    return bs("@".join(["t" if thin else "f", "%x" % mode, str(chunk), enc_opt(old), enc_opt(stale),
                        "|".join(enc_scanned(*o) for o in scan),
                        "|".join(enc_entry(n, ck) for n, ck in fetch)]))


# ------------------------------------------------------------------ generators
NAME_POOL = ["pkg-1.ebuild", "pkg-2.0.ebuild", "pkg-1.0-r1.ebuild", "metadata.xml", "ChangeLog", "README",
             ".ebuild", "x.ebuild~", "ebuild", "a.EBUILD", "pkg.ebuild.orig", "files.txt", "Manifest.old",
             "CVS.txt", "été.ebuild", "日本.xml", "Zz", "a", "B", "_x", "~", "0"]
AUX_POOL = ["fix.patch", "a.patch", "A.patch", "b/c.patch", "b/d.patch", "sub/deep/x", "init.d", "ü.diff",
            "z", "0001-x.patch", "b.patch", "pkg-1.ebuild", "a", "b"]
DIST_POOL = ["pkg-1.tar.gz", "pkg-2.0.tar.xz", "Pkg-1.zip", "a.tgz", "b.tgz", "pkg-1.tar.gz.sig", "z.tar", "0.tar",
             "é.tar", "_.tar"]
HOSTILE = ["a b", "a\tb", " x", "x ", "a\rb", "a\nb", "a\xa0b", "a\u2003b", "", "AUX", "size", "a\x1cb",
           "a\x85b", "a\\b", 'q"t', "p|q", "s;t", "u@v", "-x", "+x", "a\u3000", "\u2028z"]


def rand_val(rng, chf):
    w = WIDTH.get(chf, 8)
    r = rng.random()
    if r < 0.15:
        return rng.randrange(0, 16)
    if r < 0.3:
        return rng.getrandbits(4 * w - rng.randrange(1, 9))        # leading zeros
    if r < 0.35:
        return rng.getrandbits(4 * w + 8)                           # wider than the handler
    return rng.getrandbits(4 * w) | (1 << (4 * w - 1))


def rand_chfs(rng):
    r = rng.random()
    if r < 0.7:
        return ("size", rng.choice(["md5", "sha1", "rmd160"]))
    if r < 0.87:
        return ("size",) + tuple(rng.sample(["md5", "sha1", "sha256", "blake2s", "sha3_256"], 2))
    if r < 0.92:
        return ("size", "blake2b", "sha512")
    return ("size",) + tuple(rng.sample(sorted(HASHLIB), rng.randrange(0, 3)))


def rand_fetch(rng, hostile=False):
    """list of (filename, chksums dict)"""
    n = rng.choice([0, 1, 1, 2, 2, 3, 4])
    names = rng.sample(DIST_POOL, n)
    out = []
    for nm in names:
        chfs = rand_chfs(rng)
        ck = {}
        for c in chfs:
            ck[c] = rng.randrange(0, 10 ** rng.randrange(1, 8)) if c == "size" else rand_val(rng, c)
        if hostile:
            r = rng.random()
            if r < 0.12:
                ck.pop("size", None)
            elif r < 0.24:
                ck[rng.choice(["foo", "SHA1", "sha-1", "crc32"])] = rng.randrange(1000)
            elif r < 0.36:
                nm = rng.choice(["d/", "../", "x/y/"]) + nm
            elif r < 0.45:
                nm = rng.choice(HOSTILE)
        if rng.random() < 0.3:                                        # dict order is not sorted
            ck = dict(rng.sample(list(ck.items()), len(ck)))
        out.append((nm, ck))
    if hostile and out and rng.random() < 0.1:
        out.append(out[0])
    return out


def file_chks(data: bytes, chfs):
    ck = {}
    for c in chfs:
        ck[c] = len(data) if c == "size" else int(hashlib.new(HASHLIB[c], data).hexdigest(), 16)
    return ck


# ------------------------------------------------------------------ stream "line"
def stream_line(chk, digest):
    rng = chk.rng
    cases = []
    for chf in sorted(WIDTH):
        for v in (0, 1, 0xabcdef, (1 << (4 * WIDTH[chf])) - 1, 1 << (4 * WIDTH[chf]), rand_val(rng, chf)):
            cases.append(("DIST", "f", {"size": rng.randrange(1000), chf: v}))
    for _ in range(chk.n(40, 400)):
        ty = rng.choice(["AUX", "DIST", "EBUILD", "MISC", "misc"])
        nm, ck = (rand_fetch(rng, hostile=True) or [("n", {"size": 1})])[0]
        cases.append((ty, nm, ck))
    rows = []
    for ty, nm, ck in cases:
        res = impl_call(lambda: digest._manifest_line(ty, nm, ck), kinds=KINDS)
        rows.append((bs(esc(ty) + "@" + enc_entry(nm, ck)), Raw(cres(res))))
        chk.nontrivial(("line", ty, nm, tuple(ck)))
    chk.count("line", len(rows))
    return rows


# ------------------------------------------------------------------ stream "text" (fake scan)
def gen_fake(rng, hostile):
    """-> (thin, scan=[(kind, loc, chks)], fetch, covered) ; covered = {"AUX": {name: chks}, ...} or None
    when the case is outside the round-trip precondition (hostile)"""
    thin = rng.random() < 0.2
    chfs = rand_chfs(rng)
    scan, cov = [], {"AUX": {}, "EBUILD": {}, "MISC": {}}

    def reg(loc, cls=None, name=None):
        ck = {c: (rng.randrange(0, 5000) if c == "size" else rand_val(rng, c)) for c in chfs}
        if rng.random() < 0.2:
            ck = dict(rng.sample(list(ck.items()), len(ck)))
        scan.append(("r", loc, ck))
        if cls:
            cov[cls][name] = ck

    for nm in rng.sample(NAME_POOL, rng.randrange(0, 6)):
        reg("/" + nm, "EBUILD" if nm.endswith(".ebuild") else "MISC", nm)
    if rng.random() < 0.8:
        scan.append(("d", "/files", {}))
        subs = set()
        for nm in rng.sample(AUX_POOL, rng.randrange(0, 5)):
            if any(nm.startswith(s + "/") or s.startswith(nm + "/") or s == nm for s in subs | set(cov["AUX"])):
                continue
            for i in range(1, nm.count("/") + 1):
                d = "/files/" + "/".join(nm.split("/")[:i])
                if d not in subs:
                    subs.add(d)
                    scan.append(("d", d, {}))
            reg("/files/" + nm, "AUX", nm)
    # excluded things
    for loc in rng.sample(["/Manifest", "/.update.Manifest", "/CVS/Entries", "/.svn/x", "/files/CVS/Root",
                           "/files/Manifest", "/files/sub/.svn/e", "/files/.update.Manifest"], rng.randrange(0, 4)):
        reg(loc)
    for loc in rng.sample(["/CVS", "/.svn", "/other", "/files/CVS"], rng.randrange(0, 3)):
        scan.append(("d", loc, {}))
    if rng.random() < 0.3:
        scan.append((rng.choice(["l", "o"]), rng.choice(["/link.ebuild", "/files/fifo", "/other/l"]), {}))
    ok = True
    if hostile:
        for _ in range(rng.randrange(1, 3)):
            r = rng.random()
            if r < 0.3:
                reg(rng.choice(["/other/x", "/filesx/y", "/files2/a.patch", "/a/b/c", "/CVSX/Entries"]))
            elif r < 0.6:
                reg(rng.choice(["/", "/files/"]) + rng.choice(HOSTILE))
            elif r < 0.8:
                reg(rng.choice(["x", "files/a", "", "//x", "/files//y", "/files"]))
            elif scan:
                scan.append(rng.choice(scan))                           # the same location twice
        ok = False
    fetch = rand_fetch(rng, hostile)
    rng.shuffle(scan)
    return thin, scan, fetch, (cov if ok else None)


class FakeScan:
    def __init__(self, digest):
        self.digest, self.saved, self.objs = digest, None, []

    def __enter__(self):
        self.saved = self.digest.iter_scan
        self.digest.iter_scan = lambda *a, **kw: iter(self.objs)
        return self

    def __exit__(self, *a):
        self.digest.iter_scan = self.saved


def fake_objs(scan):
    from pkgcore.fs import fs as fsmod
    out = []
    for kind, loc, ck in scan:
        if kind == "r":
            out.append(fsmod.fsFile(loc, strict=False, chksums=dict(ck)))
        elif kind == "d":
            out.append(fsmod.fsDir(loc, strict=False))
        elif kind == "l":
            out.append(fsmod.fsSymlink(loc, strict=False, target="x"))
        else:
            out.append(fsmod.fsFifo(loc, strict=False))
    return out


def mk_fetchables(fetch):
    from pkgcore.fetch import fetchable
    return [fetchable(n, chksums=dict(ck)) for n, ck in fetch]


def impl_text(digest, fs_, path, thin, scan, fetch):
    """text Manifest.update writes for a fake scan (None = nothing to write)"""
    if os.path.lexists(path):
        os.unlink(path)
    fs_.objs = fake_objs(scan)
    m = digest.Manifest(path, thin=thin)
    wrote = m.update(mk_fetchables(fetch), chfs=None)
    if not wrote:
        return None
    with open(path, newline="", encoding="utf-8") as f:
        return f.read()


def covered_val(cov, fetch, thin):
    """what the Manifest must parse back to: [DIST, AUX, EBUILD, MISC] as {name: {chf: int}}"""
    d = {"DIST": {n: dict(ck) for n, ck in fetch}}
    for t in ("AUX", "EBUILD", "MISC"):
        d[t] = {} if thin else {n: dict(ck) for n, ck in cov[t].items()}
    return [d[t] for t in ("DIST", "AUX", "EBUILD", "MISC")]


def stream_text(chk, digest, work):
    rng = chk.rng
    rows, metas, py_bad = [], [], []
    path = str(work / "fake" / "cat" / "pkg" / "Manifest")
    os.makedirs(os.path.dirname(path))
    with FakeScan(digest) as fs_:
        for i in range(chk.n(110, 2000)):
            hostile = rng.random() < 0.3
            thin, scan, fetch, cov = gen_fake(rng, hostile)
            # the model sees the objects as the scan yields them (fsBase normalises its location)
            scan = [(k, o.location, ck) for (k, _, ck), o in zip(scan, fake_objs(scan))]
            res = impl_call(lambda: impl_text(digest, fs_, path, thin, scan, fetch), kinds=KINDS)
            rows.append((enc_update(thin, 0o644, 0, None, None, scan, fetch), Raw(cres(res))))
            metas.append((thin, scan, fetch, cov))
            classes = tuple(sorted({k for k, _, _ in scan})) + (thin, hostile, len(fetch), isinstance(res, Err))
            chk.nontrivial(("text", classes, tuple(l for _, l, _ in scan)[:6], tuple(n for n, _ in fetch)))
            # (B) order independence, on the implementation: another order of the same inputs
            if len({l for _, l, _ in scan}) == len(scan) and len({n for n, _ in fetch}) == len(fetch):
                scan2, fetch2 = scan[:], fetch[:]
                rng.shuffle(scan2)
                rng.shuffle(fetch2)
                res2 = impl_call(lambda: impl_text(digest, fs_, path, thin, scan2, fetch2), kinds=KINDS)
                if res2 != res:
                    py_bad.append({"what": "the Manifest text depends on the listing / input order",
                                   "input": {"thin": thin, "scan": scan, "fetch": fetch, "scan_reordered": scan2,
                                             "fetch_reordered": fetch2},
                                   "text": res, "text_reordered": res2})
            # (B) parseable, on the implementation
            if cov is not None and isinstance(res, str):
                with open(path, "w", newline="", encoding="utf-8") as f:
                    f.write(res)
                got = impl_call(lambda: [dict((k, dict(v)) for k, v in d.items())
                                         for d in digest.parse_manifest(path, ignore_gpg=False)], kinds=KINDS)
                want = covered_val(cov, fetch, thin)
                if got != want:
                    py_bad.append({"what": "the generated Manifest does not parse back to the sizes and checksums "
                                           "of the files and distfiles it covers",
                                   "input": {"thin": thin, "scan": scan, "fetch": fetch}, "text": res,
                                   "parsed": got, "covered": want})
    chk.count("text", len(rows))
    for r in rows[:2]:
        chk.sample({"stream": "text", "input": r[0][:300], "impl": r[1].term[:300]})
    return rows, metas, py_bad


# ------------------------------------------------------------------ stream "update" (real directories)
def gen_pkg(rng, hostile=False):
    """a package directory description (JSON-able)"""
    files = {}      # relpath -> [kind, content, class]   kind f/d/l ; class AUX/EBUILD/MISC/None(excluded)

    def blob():
        return "".join(rng.choice("abc\n #") for _ in range(rng.randrange(0, 12)))

    ebuilds = rng.sample(["pkg-1.ebuild", "pkg-2.0.ebuild", "pkg-1.0-r1.ebuild", ".ebuild", "été.ebuild"],
                         rng.randrange(0, 3))
    for e in ebuilds:
        files[e] = ["f", blob(), "EBUILD"]
    for m in rng.sample(["metadata.xml", "ChangeLog", "x.ebuild~", "ebuild", "日本.xml", "Zz", "a.EBUILD"],
                        rng.randrange(0, 3)):
        files[m] = ["f", blob(), "MISC"]
    if rng.random() < 0.75:
        files["files"] = ["d", "", None]
        for a in rng.sample(AUX_POOL, rng.randrange(0, 4)):
            parts = a.split("/")
            if any(("files/" + "/".join(parts[:i])) in files and files["files/" + "/".join(parts[:i])][0] == "f"
                   for i in range(1, len(parts))) or ("files/" + a) in files:
                continue
            if any(k.startswith("files/" + a + "/") for k in files):
                continue
            for i in range(1, len(parts)):
                files["files/" + "/".join(parts[:i])] = ["d", "", None]
            files["files/" + a] = ["f", blob(), "AUX"]
        if rng.random() < 0.3:
            sub = rng.choice(["CVS", ".svn"])
            files["files/" + sub] = ["d", "", None]
            files["files/" + sub + "/Entries"] = ["f", blob(), None]
        if rng.random() < 0.15:
            files["files/Manifest"] = ["f", blob(), None]
    if rng.random() < 0.3:
        sub = rng.choice(["CVS", ".svn"])
        files[sub] = ["d", "", None]
        files[sub + "/Root"] = ["f", blob(), None]
    if rng.random() < 0.2:
        files["link.ebuild"] = ["l", "pkg-1.ebuild", None]
    if rng.random() < 0.15:
        files["empty"] = ["d", "", None]
    bad = False
    if hostile:
        files["other"] = ["d", "", None]
        files["other/x"] = ["f", blob(), None]
        bad = True
    thin = rng.random() < 0.25
    chfs = list(rand_chfs(rng))
    if len(chfs) > 2 and rng.random() < 0.75:
        chfs = chfs[:2]          # snakeoil hashes with one thread per function beyond size+1: slow under load
    if hostile and rng.random() < 0.3:
        chfs = [c for c in chfs if c != "size"] or ["md5"]
    fetch = [[n, ck] for n, ck in rand_fetch(rng)]
    return {"thin": thin, "chfs": chfs, "files": files, "fetch": fetch, "bad": bad,
            "old": rng.choice([None, None, "@uptodate", "@uptodate", "@crlf", "", "DIST x 1 MD5 00\n", "garbage\n",
                               "@prefix", "@extra"]),
            "stale": rng.choice([None, None, None, "", "stale partial\n"]),
            "lseed": rng.randrange(1 << 30), "chunks": rng.choice([1, 2, 2, 3])}


def build_pkg(pk, case):
    shutil.rmtree(pk, ignore_errors=True)
    os.makedirs(pk)
    for rel, (kind, content, _) in sorted(case["files"].items()):
        p = os.path.join(pk, rel)
        if kind == "d":
            os.makedirs(p, exist_ok=True)
        elif kind == "l":
            os.symlink(content, p)
        else:
            os.makedirs(os.path.dirname(p), exist_ok=True)
            with open(p, "w", encoding="utf-8", newline="") as f:
                f.write(content)


def set_state(pk, old, stale):
    for name, content in (("Manifest", old), (".update.Manifest", stale)):
        p = os.path.join(pk, name)
        if os.path.lexists(p):
            os.unlink(p)
        if content is not None:
            with open(p, "w", encoding="utf-8", newline="") as f:
                f.write(content)


def get_state(pk):
    out = []
    for name in ("Manifest", ".update.Manifest"):
        p = os.path.join(pk, name)
        try:
            with open(p, encoding="utf-8", newline="") as f:
                out.append(f.read())
        except FileNotFoundError:
            out.append(None)
    return out


class Shuffled:
    """os.listdir under `root` returns its entries in a seeded pseudo-random order"""

    def __init__(self, root, lseed):
        self.root, self.lseed, self.real = os.path.realpath(root), lseed, None

    def order(self, path, names):
        names = sorted(names)
        rel = os.path.relpath(os.path.realpath(path), self.root)
        random.Random(f"{self.lseed}:{rel}").shuffle(names)
        return names

    def __enter__(self):
        self.real = os.listdir

        def listdir(path="."):
            names = self.real(path)
            try:
                rp = os.path.realpath(path)
            except (TypeError, ValueError):
                return names
            if rp == self.root or rp.startswith(self.root + os.sep):
                return self.order(path, names)
            return names
        os.listdir = listdir
        return self

    def __exit__(self, *a):
        os.listdir = self.real


def listing(pk, sh, chfs):
    """the harness's own breadth-first listing of the package directory in the shuffled order, with
    checksums computed here (hashlib), independent of pkgcore's scan"""
    out = []
    dirs = collections.deque([""])
    while dirs:
        base = dirs.popleft()
        for x in sh.order(os.path.join(pk, base.lstrip("/")), sh.real(os.path.join(pk, base.lstrip("/")))):
            loc = base + "/" + x
            st = os.lstat(os.path.join(pk, loc.lstrip("/")))
            if statmod.S_ISREG(st.st_mode):
                with open(os.path.join(pk, loc.lstrip("/")), "rb") as f:
                    data = f.read()
                out.append(("r", loc, file_chks(data, [c for c in chfs if c == "size" or c in HASHLIB])))
            elif statmod.S_ISDIR(st.st_mode):
                out.append(("d", loc, {}))
                dirs.append(loc)
            else:
                out.append(("l", loc, {}))
    return out


def reap(run):
    """drop a faulted run: the AtomicWriteFile left behind by a simulated crash would unlink the temporary
    from its __del__ at some later point (the crashed process has no such afterlife)"""
    run.exc = None
    hook = sys.unraisablehook
    sys.unraisablehook = lambda *a: None
    try:
        gc.collect(0)
    finally:
        sys.unraisablehook = hook


OPK = {"create": 0, "truncate": 1, "write": 2, "rename": 3, "unlink": 4}


def trace_val(trace):
    out = []
    for c in trace:
        if not c.ok:
            continue

        def pid(cp):
            return 0 if cp == ("Manifest",) else 1 if cp == (".update.Manifest",) else 2
        k = OPK.get(c.kind, 9)
        if k == 0:
            out.append([0, pid(c.cpaths[0]), c.args[1]])
        elif k in (1, 4):
            out.append([k, pid(c.cpaths[0])])
        elif k == 2:
            out.append([2, pid(c.cpaths[0]), c.args[2].decode("utf-8", "surrogateescape")])
        elif k == 3:
            out.append([3, pid(c.cpaths[0]), pid(c.cpaths[1])])
        else:
            out.append([9])
    return out


def run_update_case(digest, pk, case, chk_unused=None):
    """-> dict(res=val or Err, scan, old, chunk, oracle=[...property failures...], ncrash)"""
    old_umask = os.umask(UMASK)
    try:
        build_pkg(pk, case)
        chfs = tuple(case["chfs"])
        fetch = [(n, dict(ck)) for n, ck in case["fetch"]]
        thin = case["thin"]
        path = os.path.join(pk, "Manifest")

        def upd(fetch_=fetch):
            return digest.Manifest(path, thin=thin).update(mk_fetchables(fetch_), chfs=chfs)

        # the reference text (no fault, no Manifest) to derive the 'old' states and the chunk size
        set_state(pk, None, None)
        with Shuffled(pk, case["lseed"]):
            ref = impl_call(upd, kinds=KINDS)
        ref_text = get_state(pk)[0]
        old = case["old"]
        if isinstance(old, str) and old.startswith("@"):
            base = ref_text or ""
            old = {"@uptodate": base, "@crlf": base.replace("\n", "\r\n"), "@prefix": base[: len(base) // 2],
                   "@extra": base + "MISC zz 1\n"}[old]
            if ref_text is None:
                old = None
        stale = case["stale"]
        ascii_ok = ref_text is not None and ref_text.isascii()
        chunk = 0
        if ascii_ok and ref_text:
            chunk = -(-len(ref_text) // case["chunks"])
        set_state(pk, old, stale)
        with Shuffled(pk, case["lseed"]) as sh:
            scan = listing(pk, sh, chfs)
            run0 = fsx.record(upd, pk, chunk=chunk or None)
        if run0.exc is not None:
            name = type(run0.exc).__name__
            return {"res": Err(KINDS.get(name, name)), "scan": scan, "old": old, "stale": stale, "chunk": chunk,
                    "oracle": [], "ncrash": 0, "text": None}
        final = get_state(pk)
        ops = trace_val(run0.trace)
        n = len(run0.trace)
        oracle = []
        crash, eio = [], []
        for k in range(n + 1):
            set_state(pk, old, stale)
            with Shuffled(pk, case["lseed"]):
                r = fsx.run_with_fault(upd, pk, k, "crash", chunk=chunk or None)
            st = get_state(pk)
            reap(r)
            crash.append(st)
            if st[0] not in (old, final[0]):
                oracle.append({"what": "interrupted regeneration left a Manifest that is neither the complete old "
                                       "file nor the complete new one",
                               "crash_before_call": k, "call": repr(run0.trace[k]) if k < n else None,
                               "old": old, "new": final[0], "found": st[0]})
        for k in range(n):
            set_state(pk, old, stale)
            with Shuffled(pk, case["lseed"]):
                r = fsx.run_with_fault(upd, pk, k, "eio", chunk=chunk or None)
            st = get_state(pk)
            raised = r.exc
            reap(r)
            eio.append(st)
            if st[0] != old or not isinstance(raised, OSError):
                oracle.append({"what": "an I/O error during regeneration did not leave the old Manifest in place "
                                       "(or was swallowed)", "error_at_call": k, "call": repr(run0.trace[k]),
                               "old": old, "found": st[0], "raised": repr(raised)})
        # determinism: another listing order and fetchable order, same bytes
        set_state(pk, old, stale)
        f2 = fetch[:]
        random.Random(case["lseed"] + 1).shuffle(f2)
        with Shuffled(pk, case["lseed"] + 1):
            impl_call(lambda: upd(f2), kinds=KINDS)
        st2 = get_state(pk)
        if st2[0] != final[0]:
            oracle.append({"what": "the Manifest bytes depend on the directory listing / input order",
                           "first": final[0], "second": st2[0]})
        # idempotence: regenerate over the result, nothing may be written
        set_state(pk, final[0], final[1])
        with Shuffled(pk, case["lseed"] + 2):
            r3 = fsx.record(upd, pk)
        if run0.result and "\r" not in (final[0] or "") and (r3.result or [c for c in r3.trace if c.ok]):
            oracle.append({"what": "regenerating an up-to-date Manifest wrote again", "returned": r3.result,
                           "calls": [repr(c) for c in r3.trace]})
        # parseable: exactly the files and distfiles covered
        if run0.result and not case["bad"] and len({os.path.basename(n_) for n_, _ in fetch}) == len(fetch):
            cov = {"AUX": {}, "EBUILD": {}, "MISC": {}}
            if not thin:
                for rel, (kind, content, cls) in case["files"].items():
                    if cls:
                        nm = rel[len("files/"):] if cls == "AUX" else rel
                        cov[cls][nm] = file_chks(content.encode("utf-8"), chfs)
            want = covered_val(cov, fetch, thin)
            set_state(pk, final[0], None)
            got = impl_call(lambda: [dict((k_, dict(v)) for k_, v in d.items())
                                     for d in digest.parse_manifest(path, ignore_gpg=False)], kinds=KINDS)
            if got != want:
                oracle.append({"what": "the generated Manifest does not parse back to the sizes and checksums of "
                                       "the files and distfiles it covers", "text": final[0], "parsed": got,
                               "covered": want})
        def code(st):
            return [None if x is None else 1 if x == old else 2 if x == ref_text else x for x in st]
        return {"res": [bool(run0.result), ops, [code(c) for c in crash], [code(c) for c in eio]], "scan": scan, "old": old, "stale": stale,
                "chunk": chunk, "oracle": oracle, "ncrash": n, "text": final[0], "trace": [repr(c) for c in run0.trace]}
    finally:
        os.umask(old_umask)


def case_term(case, r):
    fetch = [(n, dict(ck)) for n, ck in case["fetch"]]
    return enc_update(case["thin"], 0o666 & ~UMASK, r["chunk"], r["old"], r["stale"], r["scan"], fetch)


def corpus_cases():
    d = VERIF / "corpus" / "C28"
    out = []
    if d.is_dir():
        for p in sorted(d.glob("*.json")):
            data = json.loads(p.read_text())
            out += data if isinstance(data, list) else [data]
    return out


def stream_update(chk, digest, work):
    rng = chk.rng
    rows, metas, bad = [], [], []
    todo = [c for c in corpus_cases() if "files" in c]
    todo += [None] * chk.n(24, 300)
    for i, case in enumerate(todo):
        if case is None:
            case = gen_pkg(rng, hostile=rng.random() < 0.12)
        pk = str(work / f"u{i}" / "cat" / "pkg")
        r = run_update_case(digest, pk, case)
        shutil.rmtree(str(work / f"u{i}"), ignore_errors=True)
        rows.append((case_term(case, r), Raw(cres(r["res"]))))
        metas.append((case, r))
        for o in r["oracle"]:
            bad.append(dict(o, input=case))
        if r["ncrash"] >= 3 and r["old"] is not None:
            chk.nontrivial(("update", i))
        chk.count("update-crash-points", r["ncrash"] + 1 if r["ncrash"] else 0)
        chk.count("update-eio-points", r["ncrash"])
    chk.count("update", len(rows))
    for case, r in metas[:2]:
        chk.sample({"stream": "update", "case": case, "trace": r.get("trace"), "result": str(r["res"])[:400]})
    return rows, metas, bad


# ------------------------------------------------------------------ stream "parse"
HAND_PARSE = [
    "", "\n\n", "DIST a 1\n", "DIST a 1", "DIST a\n", "DIST\n", "FOO a 1\n", "dist a 1\n", "DIST a 1 MD5\n",
    "DIST a 1 MD5 ff\nDIST a 2 MD5 00\n", "DIST a 1 MD5 ff\nAUX a 2 MD5 00\n", "DIST a x\n", "DIST a 1 MD5 zz\n",
    "DIST a +1 MD5 +f\n", "DIST a -1 MD5 -f\n", "DIST a 1_0 MD5 f_f\n", "DIST a 1__0\n", "DIST a _1\n", "DIST a 1_\n",
    "DIST a 1 MD5 0xff\n", "DIST a 1 MD5 0Xff\n", "DIST a 1 MD5 0x\n", "DIST a 1 MD5 0x_f\n", "DIST a 1 MD5 0x__f\n",
    "DIST a 0x10\n", "DIST a 1 SIZE 5 MD5 ff\n", "DIST a 1 size zz MD5 ff\n", "DIST a 1 MD5 ff md5 ee\n",
    "DIST a 1 MD5 ff SHA1 aa MD5 bb\n", "DIST a 1 Md5 FF\n", "DIST a 1 FOO ff\n", "DIST a 1\r\nDIST b 2\r\n",
    "DIST a 1\rDIST b 2\r", "DIST a 1\x0cDIST b 2\n", "  DIST   a \t 1  \n", "DIST a 1\n", "DIST a 1 　\n",
    "DIST a 1 DIST b 2\n", "DIST a 1\x1cMD5\x1dff\n", "DIST a 1\x85\n", "MISC m 1\nEBUILD e 2\nAUX x 3\nDIST d 4\n",
    "DIST é 1\n", "DIST a 007\n", "DIST a 1 MD5 00000000000000000000000000000005\n", "DIST a 1 MD5 f f\n",
    "DIST a 1 MD5\n\n", "-----BEGIN PGP SIGNED MESSAGE-----\nHash: SHA1\n\nDIST a 1\n", "DIST size 1 SIZE 2\n",
    "DIST a 1 MD5 ff\nDIST a 1 MD5 ff\n", "DIST a 1 MD5 g\n", "DIST a 1 MD5 -\n", "DIST a - MD5 f\n", "DIST a + \n",
    "DIST a 1 0 1\n", "DIST 1 1\n", "AUX AUX 1\n", "EBUILD a 1 MD5 ff\nEBUILD b 1\nEBUILD a 3\n",
]


def mutate(rng, text):
    ls = text.split("\n")
    r = rng.random()
    i = rng.randrange(len(ls))
    toks = ls[i].split(" ")
    if r < 0.15 and len(toks) > 1:
        del toks[rng.randrange(len(toks))]
    elif r < 0.3:
        toks.insert(rng.randrange(len(toks) + 1), rng.choice(["x", "SIZE", "1", "ff", "MD5", "0x1f", "-3", "f_f", "_"]))
    elif r < 0.4:
        toks[0] = rng.choice(["DIST", "AUX", "EBUILD", "MISC", "dist", "FOO", ""])
    elif r < 0.5 and len(ls) > 1:
        ls.insert(rng.randrange(len(ls)), ls[rng.randrange(len(ls))])
        return "\n".join(ls)
    elif r < 0.6:
        return text.replace("\n", rng.choice(["\r\n", "\r", "\n\n", " \n", "\x0c", " "]))
    elif r < 0.7:
        return text.replace(" ", rng.choice(["  ", "\t", " ", "\x1f", " "]), rng.randrange(1, 4))
    elif r < 0.8 and len(toks) > 2:
        j = rng.randrange(2, len(toks))
        toks[j] = rng.choice([toks[j].upper(), toks[j].lower(), "+" + toks[j], "-" + toks[j], "0x" + toks[j],
                              toks[j] + "_", toks[j][:1] + "_" + toks[j][1:], toks[j] + "g", ""])
    elif r < 0.9:
        rng.shuffle(ls)
        return "\n".join(ls)
    else:
        return text[: rng.randrange(len(text) + 1)]
    ls[i] = " ".join(toks)
    return "\n".join(ls)


def show_parsed(res):
    def hx(v):
        return ("-" if v < 0 else "") + "%x" % abs(v)
    return "\t".join("\n".join(" ".join([name] + [x for c, v in d[name].items() for x in (c, hx(v))]) for name in d)
                     for d in res)


def stream_parse(chk, digest, work, texts):
    rng = chk.rng
    path = str(work / "parse" / "cat" / "pkg" / "Manifest")
    os.makedirs(os.path.dirname(path))
    cands = list(HAND_PARSE)
    for c in corpus_cases():
        if "parse" in c:
            cands.append(c["parse"])
    texts = [t for t in texts if isinstance(t, str) and t]
    good = rng.sample(texts, min(len(texts), chk.n(24, 300))) if texts else []
    cands += good
    for _ in range(chk.n(110, 2000)):
        t = rng.choice(good) if good and rng.random() < 0.8 else rng.choice(HAND_PARSE)
        if len(t) > 400:
            t = "\n".join(rng.sample(t.split("\n"), 2)) + "\n"
        t = mutate(rng, t)
        if rng.random() < 0.2:
            t = mutate(rng, t)
        cands.append(t)
    rows = []
    seen = set()
    for t in cands:
        if t in seen or "\x00" in t:
            continue
        seen.add(t)
        with open(path, "w", encoding="utf-8", newline="") as f:
            f.write(t)
        res = impl_call(lambda: show_parsed(digest.parse_manifest(path, ignore_gpg=False)), kinds=KINDS)
        rows.append((bs(esc(t)), Raw(cres(res))))
        chk.nontrivial(("parse", t[:80], len(t)))
    chk.count("parse", len(rows))
    return rows


# ------------------------------------------------------------------ main
def main(chk: Check):
    from pkgcore.ebuild import digest

    chk.rule("text: random fake scans (ebuilds, misc files, files/ trees with sub-directories, CVS/.svn/Manifest/"
             ".update.Manifest exclusions, symlinks, directories; 30% hostile: files in unexpected directories, names "
             "with white space / separators, repeated locations, missing size, unknown checksum names) with random "
             "distfile checksum sets, thick and thin, listing order shuffled; update: real package directories with "
             "os.listdir shuffled, existing Manifest absent / up to date / CRLF / truncated / extended / garbage, "
             "stale .update.Manifest, every traced call a crash point and an EIO point; parse: generated texts, "
             "token/line mutations, hand-written malformed lines; non-trivial = distinct (shape, names) of a case; "
             "for update: a case with an existing Manifest and at least 3 crash points")
    ok = chk.build(["C28/Prop_C28.vo"])
    if ok:
        chk.check_assumptions("C28/Prop_C28.v")
    chk.lint(["C28"])
    chk.check_fingerprint(ANCHORS)
    chk.note("the write is modelled on C18.Fs: each completed call is durable (no page-cache reordering); the "
             "UTF-8 encoding of the text layer is not modelled (file data = code points); upper()/lower()/int() "
             "are modelled on ASCII")
    work = chk.scratch / "c28"
    work.mkdir()

    import time as _t
    _t0 = _t.time()
    def _lap(what):
        nonlocal _t0
        if os.environ.get("VERIF_C28_TIMING"):
            print(f"  [{what}] {_t.time() - _t0:.1f}s", file=sys.stderr)
        _t0 = _t.time()
    _lap("build+lint")
    line_rows = stream_line(chk, digest)
    _lap("line")
    text_rows, text_metas, text_bad = stream_text(chk, digest, work)
    _lap("text")
    upd_rows, upd_metas, upd_bad = stream_update(chk, digest, work)
    _lap("update")
    texts = [m[1]["text"] for m in upd_metas] + [None]
    # texts of the fake stream, re-rendered from the recorded result terms is awkward: regenerate a few
    with FakeScan(digest) as fs_:
        p = str(work / "fake" / "cat" / "pkg" / "Manifest")
        for thin, scan, fetch, cov in text_metas[:: max(1, len(text_metas) // chk.n(40, 300))]:
            if cov is not None:
                t = impl_call(lambda: impl_text(digest, fs_, p, thin, scan, fetch), kinds=KINDS)
                texts.append(t if isinstance(t, str) else None)
    parse_rows = stream_parse(chk, digest, work, texts)

    _lap("parse")
    streams = [
        ("line", line_rows, ["mismatches run_line cases"]),
        ("text", text_rows, ["mismatches run_text cases", "where_ (fun i r => negb (spec_text_ok i r)) cases"]),
        ("update", upd_rows, ["mismatches run_update cases", "where_ (fun i r => negb (spec_update_ok i r)) cases"]),
        ("parse", parse_rows, ["mismatches run_parse cases"]),
    ]
    prop_bad = text_bad + upd_bad
    spec_bad = []
    mism = {}
    # one evaluation for all streams (fewer coqc start-ups): cases are (stream tag, case)
    tags = {"line": 0, "text": 1, "update": 2, "parse": 3}
    allrows, origin = [], []
    for name, rows, _ in streams:
        for k, (term, res) in enumerate(rows):
            allrows.append((f"({tags[name]}%nat, {term})", res))
            origin.append((name, k))
    if ok:
        r = chk.coq_eval("all", IMPORTS, "nat * bstr", allrows,
                         ["mismatches run_any cases", "where_ (fun i r => negb (spec_any_ok i r)) cases"],
                         shard=chk.n(160, 300))
        if r is not None:
            for g in r[0]:
                mism.setdefault(origin[g][0], []).append(origin[g][1])
            spec_bad += [origin[g] for g in r[1]]
    _lap("coq")

    # ---- property failures with a concrete input
    seen_what = collections.Counter()
    for b in prop_bad:
        seen_what[b["what"]] += 1
        if seen_what[b["what"]] <= 2:
            chk.violation("property", b)
    for name, i in spec_bad[:3]:
        if prop_bad:
            break
        if name == "text":
            thin, scan, fetch, cov = text_metas[i]
            raised = text_rows[i][1].term.startswith("(VErr")
            chk.violation("property", {"what": ("Manifest.update raised on a well-formed package directory / distfile "
                                                "set (Spec_C28.spec_text_ok)") if raised else
                                               ("Spec_C28.spec_text_ok rejects the implementation's Manifest text (it "
                                                "does not parse back to the covered files)"),
                                       "input": {"thin": thin, "scan": scan, "fetch": fetch},
                                       "implementation": text_rows[i][1].term[:2000]})
        else:
            case, r = upd_metas[i]
            chk.violation("property", {"what": "Spec_C28.spec_update_ok rejects the recorded crash / error states "
                                               "(Manifest neither old nor new)", "input": case,
                                       "trace": r.get("trace"), "result": str(r["res"])[:3000]})
    # ---- correspondence
    for name, rows, _ in streams:
        for i in mism.get(name, [])[:3]:
            detail = {"what": f"implementation and Model_C28 disagree on stream '{name}' (the theorems of Prop_C28 no "
                              "longer speak about this code)",
                      "case_term": rows[i][0][:3000], "implementation": rows[i][1].term[:3000]}
            if name == "update":
                detail["input"] = upd_metas[i][0]
                detail["trace"] = upd_metas[i][1].get("trace")
            elif name == "text":
                thin, scan, fetch, _c = text_metas[i]
                detail["input"] = {"thin": thin, "scan": scan, "fetch": fetch}
            chk.violation("correspondence", detail, no_input=not (prop_bad or spec_bad))


def replay(chk, data):
    from pkgcore.ebuild import digest
    d = data.get("detail", {})
    case = d.get("input")
    if isinstance(case, dict) and "files" in case:
        work = chk.scratch / "replay"
        r = run_update_case(digest, str(work / "cat" / "pkg"), case)
        print(json.dumps({"trace": r.get("trace"), "oracle": r["oracle"], "result": str(r["res"])[:2000]}, indent=1,
                         default=repr))
