(* C29/Prop_C29.v — the property theorems, closed here so that a statement cannot be weakened
   silently.  Nothing but statements and Print Assumptions. *)
From Coq Require Import List NArith ZArith Bool.
Import ListNotations.
From Verif Require Import Base.Val C18.Fs C29.Model_C29 C29.Spec_C29 C29.Proofs_C29.

(* the generic theorem: an update whose ops before and after a middle section name invisible
   paths only is old-or-new at every crash point outside that section *)
Theorem window_consistent :
  forall cat_ok skip as_dir loc pre mid post s,
    nolinks s -> Forall (outside cat_ok skip loc) pre -> Forall plain mid ->
    Forall (outside cat_ok skip loc) post ->
    crash_consistent_outside cat_ok skip as_dir loc (length pre) (length pre + length mid)
                             (pre ++ mid ++ post) s.
Proof. exact window. Qed.
Print Assumptions window_consistent.

Theorem vdb_install_consistent :
  forall loc s cat pf items,
    nolinks s -> vdb_consistent loc (vdb_install_ops s loc cat pf items) s.
Proof. exact vdb_install_consistent_proof. Qed.
Print Assumptions vdb_install_consistent.

Theorem bin_install_consistent :
  forall base s cat pid pf chunks cache,
    nolinks s -> bin_consistent base (bin_install_ops s base cat pid pf chunks cache) s.
Proof. exact bin_install_consistent_proof. Qed.
Print Assumptions bin_install_consistent.

Theorem bin_uninstall_consistent :
  forall base s cat old,
    nolinks s -> bin_consistent base (bin_uninstall_ops s base cat old) s.
Proof. exact bin_uninstall_consistent_proof. Qed.
Print Assumptions bin_uninstall_consistent.

(* vdb replace: false in general (two witnesses), true outside the window
   (end of staging + utime, rename of the new directory) *)
Theorem vdb_replace_refuted : ~ vdb_replace_full.
Proof. exact vdb_replace_refuted_proof. Qed.
Print Assumptions vdb_replace_refuted.

Theorem vdb_replace_refuted_inside_rmtree :
  exists loc s cat old pf tree items k,
    nolinks s
    /\ ~ vdb_view_eq loc (run (firstn k (vdb_replace_ops s loc cat old pf tree items)) s) s
    /\ ~ vdb_view_eq loc (run (firstn k (vdb_replace_ops s loc cat old pf tree items)) s)
                         (run (vdb_replace_ops s loc cat old pf tree items) s)
    /\ listed vdb_cat_ok vdb_skip true loc (run (firstn k (vdb_replace_ops s loc cat old pf tree items)) s) cat old = true.
Proof. exact vdb_replace_refuted_inside_rmtree_proof. Qed.
Print Assumptions vdb_replace_refuted_inside_rmtree.

Theorem vdb_replace_partial :
  forall loc s cat old pf tree items,
    nolinks s ->
    vdb_consistent_outside loc (replace_lo loc s cat pf items) (replace_hi loc s cat old pf tree items)
                           (vdb_replace_ops s loc cat old pf tree items) s.
Proof. exact vdb_replace_partial_proof. Qed.
Print Assumptions vdb_replace_partial.

(* vdb uninstall: false inside rmtree, true before it starts and after it has finished *)
Theorem vdb_uninstall_refuted : ~ vdb_uninstall_full.
Proof. exact vdb_uninstall_refuted_proof. Qed.
Print Assumptions vdb_uninstall_refuted.

Theorem vdb_uninstall_partial :
  forall loc s cat old tree,
    nolinks s ->
    vdb_consistent_outside loc 1 (uninstall_hi loc cat old tree)
                           (vdb_uninstall_ops s loc cat old tree) s.
Proof. exact vdb_uninstall_partial_proof. Qed.
Print Assumptions vdb_uninstall_partial.
