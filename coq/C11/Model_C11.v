(* Model_C11.v — executable model of pkgcore.ebuild.misc.ChunkedDataDict (misc.py) and of the
   package.use line splitter (domain.py: package_use_splitter.f).  Bug-compatible.  No proofs.

   Tokens (flags and wildcard negations) are numbers:
     0          "*"                (only meaningful in a neg list: "-*")
     1..9       "P_*"              wildcard of USE_EXPAND prefix P (only in neg lists: "-foo_*")
     >= 10      flags; flag f belongs to prefix f/100 (plain flags 10..99 have prefix 0)
   Chunk keys are abstracted to scopes over packages (key id, version id):
     KAll (packages.AlwaysTrue), KGlob m (a non-atom restriction such as cata/*; m = bitmask of the
     key ids it matches), KSimple k (atom "cat/pkg"), KVer k v (atom "=cat/pkg-v").
   Python's set->tuple order of global entries is supplied by the harness (lists here are tuples). *)
From Coq Require Import List NArith ZArith Bool.
Import ListNotations.
From Verif Require Import Base.Val.
Open Scope N_scope.

Inductive scope := KAll | KGlob (m : N) | KSimple (k : N) | KVer (k v : N).
Record chunk := mkc { sc : scope; neg : list N; pos : list N }.
Definition pkg := (N * N)%type.

Definition cA := mkc KAll.
Definition cG m := mkc (KGlob m).
Definition cS k := mkc (KSimple k).
Definition cV k v := mkc (KVer k v).

Definition mem (x : N) (l : list N) : bool := existsb (N.eqb x) l.
Fixpoint list_eqb (a b : list N) : bool :=
  match a, b with
  | [], [] => true
  | x :: a', y :: b' => N.eqb x y && list_eqb a' b'
  | _, _ => false
  end.
Definition scope_eqb (a b : scope) : bool :=
  match a, b with
  | KAll, KAll => true
  | KGlob m, KGlob m' => N.eqb m m'
  | KSimple k, KSimple k' => N.eqb k k'
  | KVer k v, KVer k' v' => N.eqb k k' && N.eqb v v'
  | _, _ => false
  end.
(* chunked_data is a namedtuple: equality is key equality and tuple (ordered) equality *)
Definition chunk_eqb (a b : chunk) : bool :=
  scope_eqb (sc a) (sc b) && list_eqb (neg a) (neg b) && list_eqb (pos a) (pos b).
Definition memc (c : chunk) (l : list chunk) : bool := existsb (chunk_eqb c) l.

(* restriction.match(pkg) *)
Definition applies (s : scope) (p : pkg) : bool :=
  match s with
  | KAll => true
  | KGlob m => N.testbit m (fst p)
  | KSimple k => N.eqb k (fst p)
  | KVer k v => N.eqb k (fst p) && N.eqb v (snd p)
  end.

(* ---------------------------------------------------------------- incremental_chunked *)
Definition is_wild (t : N) : bool := t <? 10.
Definition pre_clears (t f : N) : bool := (0 <? t) && (t <? 10) && (f / 100 =? t).
Definition apply_chunk (c : chunk) (s : list N) : list N :=
  let s1 := if mem 0 (neg c) then [] else s in                                   (* "*" in neg: clear *)
  let s2 := filter (fun f => negb (existsb (fun t => pre_clears t f) (neg c))) s1 in  (* "-P_*" *)
  let s3 := filter (fun f => negb (mem f (neg c))) s2 in                          (* difference_update *)
  s3 ++ pos c.                                                                    (* update *)
Definition render_list (items : list chunk) (p : pkg) (pre : list N) : list N :=
  fold_left (fun s c => if applies (sc c) p then apply_chunk c s else s) items pre.

(* ---------------------------------------------------------------- _build_cp_atom_payload *)
Definition locked := list (N * bool).
Fixpoint lk_get (lk : locked) (t : N) : option bool :=
  match lk with [] => None | (k, b) :: r => if N.eqb k t then Some b else lk_get r t end.
Definition lk_has (lk : locked) (t : N) : bool :=
  match lk_get lk t with Some _ => true | None => false end.
Fixpoint lk_setdefault (b : bool) (ts : list N) (lk : locked) : locked :=
  match ts with
  | [] => lk
  | t :: r => lk_setdefault b r (if lk_has lk t then lk else lk ++ [(t, b)])
  end.
Definition lockable (c : chunk) : bool :=
  match sc c with KAll | KSimple _ => true | _ => false end.
Definition is_nil {X} (l : list X) : bool := match l with [] => true | _ => false end.
Definition empty_chunk (c : chunk) : bool := is_nil (neg c) && is_nil (pos c).

(* first pass, right to left (structural recursion = the part to the right is done first);
   returns the locked map and the surviving specific chunks, already in left-to-right order *)
Fixpoint pass1 (seq : list chunk) : locked * list chunk :=
  match seq with
  | [] => ([], [])
  | c :: r =>
      let '(lk, l) := pass1 r in
      if lockable c then (lk_setdefault true (pos c) (lk_setdefault false (neg c) lk), l)
      else
        let c' := mkc (sc c) (filter (fun x => negb (lk_has lk x)) (neg c))
                             (filter (fun x => negb (lk_has lk x)) (pos c)) in
        (lk, if empty_chunk c' then l else c' :: l)
  end.
Definition lk_true (o : option bool) (dflt : bool) : bool := match o with Some b => b | None => dflt end.
Definition pass2 (lk : locked) (c : chunk) : chunk :=
  mkc (sc c) (filter (fun x => lk_true (lk_get lk x) true) (neg c))
             (filter (fun x => negb (lk_true (lk_get lk x) false)) (pos c)).
Definition merged (restrict : scope) (lk : locked) : chunk :=
  mkc restrict (map fst (filter (fun kv => negb (snd kv)) lk)) (map fst (filter (fun kv => snd kv) lk)).
Definition build (seq : list chunk) (restrict : scope) : list chunk :=
  match seq with
  | [] => []
  | [c] => [c]
  | _ =>
      let '(lk, l) := pass1 seq in
      match lk with
      | [] => l
      | _ => merged restrict lk :: filter (fun c => negb (empty_chunk c)) (map (pass2 lk) l)
      end
  end.

(* ---------------------------------------------------------------- ChunkedDataDict *)
Record cdd := mkd {
  glob : list chunk;                 (* _global_settings *)
  dict : list (N * list chunk);      (* _dict, insertion order *)
  tup : list N;                      (* keys whose value is a tuple inside an UNFROZEN dict (left by optimize) *)
  frozen : bool;
  seed : option (list chunk)         (* default factory of _dict: None = own live globals,
                                        Some l = the globals of the clone source at clone time *)
}.
Definition empty_cdd : cdd := mkd [] [] [] false None.

Fixpoint dget (d : list (N * list chunk)) (k : N) : option (list chunk) :=
  match d with [] => None | (k', l) :: r => if N.eqb k' k then Some l else dget r k end.
Fixpoint dset (d : list (N * list chunk)) (k : N) (l : list chunk) : list (N * list chunk) :=
  match d with
  | [] => [(k, l)]
  | (k', l') :: r => if N.eqb k' k then (k, l) :: r else (k', l') :: dset r k l
  end.
Definition seedlist (d : cdd) : list chunk := match seed d with None => glob d | Some l => l end.
Definition dget_default (d : cdd) (k : N) : list chunk :=
  match dget (dict d) k with Some l => l | None => seedlist d end.

Definition expand_globals (g new : list chunk) : list chunk :=
  let g' := g ++ new in
  match new with
  | c :: _ => if scope_eqb (sc c) KAll then build g' KAll else g'
  | [] => g'
  end.

(* _add_global *)
Definition add_global (d : cdd) (c : chunk) : option cdd :=
  if empty_chunk c then Some d
  else if frozen d then None
  else if negb (is_nil (tup d)) then None
  else Some (mkd (expand_globals (glob d) [c])
                 (map (fun kl => (fst kl, snd kl ++ [c])) (dict d))
                 (tup d) false (seed d)).

(* update_from_stream, atom-keyed entry: re-append the globals missing from the key's list *)
Definition reappend (g l : list chunk) : list chunk :=
  fold_left (fun l x => if memc x l then l else l ++ [x]) g l.
Definition add_key (d : cdd) (k : N) (c : chunk) : option cdd :=
  if frozen d then None
  else if mem k (tup d) then None
  else Some (mkd (glob d) (dset (dict d) k (reappend (glob d) (dget_default d k) ++ [c]))
                 (tup d) false (seed d)).
Definition add (d : cdd) (c : chunk) : option cdd :=
  match sc c with
  | KAll | KGlob _ => add_global d c
  | KSimple k | KVer k _ => add_key d k c
  end.

Definition merge_keys (d q : cdd) : list (N * list chunk) :=
  fold_left (fun (acc : list (N * list chunk)) (kl : N * list chunk) =>
               dset acc (fst kl) ((match dget acc (fst kl) with Some l => l | None => seedlist d end) ++ snd kl))
            (dict q) (dict d).
Definition merge_globals (q : cdd) (d1 : list (N * list chunk)) : list (N * list chunk) :=
  map (fun kl => match dget (dict q) (fst kl) with
                 | Some _ => kl
                 | None => (fst kl, snd kl ++ glob q) end) d1.
Definition merge_refused (d q : cdd) : bool :=
  frozen d
  || existsb (fun kl => mem (fst kl) (tup d)) (dict q)
  || (negb (is_nil (glob q))
      && existsb (fun k => match dget (dict q) k with None => true | Some _ => false end) (tup d)).
Definition merge (d q : cdd) : option cdd :=
  if is_nil (dict q) && is_nil (glob q) then Some d
  else if merge_refused d q then None
  else if is_nil (glob q) then Some (mkd (glob d) (merge_keys d q) (tup d) false (seed d))
  else Some (mkd (expand_globals (glob d) (glob q)) (merge_globals q (merge_keys d q)) (tup d) false (seed d)).

Definition clone (d : cdd) (unfreeze : bool) : cdd :=
  if frozen d && negb unfreeze then d
  else mkd (glob d) (map (fun kl => (fst kl, glob d ++ snd kl)) (dict d)) [] false (Some (glob d)).

Definition optimize (d : cdd) : cdd :=
  mkd (build (glob d) KAll)
      (map (fun kl => (fst kl, build (snd kl) (KSimple (fst kl)))) (dict d))
      (map fst (dict d)) (frozen d) (seed d).

Definition freeze (d : cdd) : cdd := mkd (glob d) (dict d) (tup d) true (seed d).

(* render_pkg / pull_data *)
Definition render (d : cdd) (p : pkg) (pre : list N) : list N :=
  render_list (match dget (dict d) (fst p) with Some l => l | None => glob d end) p pre.

(* ---------------------------------------------------------------- programs (how entries are grouped) *)
Inductive prog :=
| PNew
| PAdd (p : prog) (c : chunk)        (* add_bare_global / update_from_stream([c]) *)
| PMerge (p q : prog)                (* p.merge(q) *)
| PFreeze (p : prog)
| PClone (p : prog) (unfreeze : bool)
| POpt (p : prog).                   (* optimize() *)

Fixpoint run (p : prog) : option cdd :=
  match p with
  | PNew => Some empty_cdd
  | PAdd p c => match run p with Some d => add d c | None => None end
  | PMerge p q => match run p, run q with Some d, Some e => merge d e | _, _ => None end
  | PFreeze p => option_map freeze (run p)
  | PClone p u => option_map (fun d => clone d u) (run p)
  | POpt p => option_map optimize (run p)
  end.

(* ---------------------------------------------------------------- package.use line splitter *)
Inductive tok := TPos (f : N) | TNeg (f : N) | TStar | THdr (p : N) | TBad.
Inductive otok := OPos (f : N) | ONeg (f : N) | OStar | ONegPre (p : N).
Definition expand (p b : N) : N := 100 * p + (b - 10).

Fixpoint section (p : N) (buf : list otok) (ts : list tok) : option (list otok) :=
  match ts with
  | [] => Some buf
  | THdr p' :: r => option_map (app buf) (section p' [] r)
  | TStar :: r => option_map (cons (ONegPre p)) (section p [] r)
  | TPos b :: r => section p (buf ++ [OPos (expand p b)]) r
  | TNeg b :: r => section p (buf ++ [ONeg (expand p b)]) r
  | TBad :: _ => None
  end.
Fixpoint plain (acc : list otok) (ts : list tok) : option (list otok) :=
  match ts with
  | [] => Some acc
  | TStar :: r => plain [OStar] r
  | THdr p :: r => option_map (app acc) (section p [] r)
  | TPos f :: r => plain (acc ++ [OPos f]) r
  | TNeg f :: r => plain (acc ++ [ONeg f]) r
  | TBad :: _ => None
  end.
Definition split_line (ts : list tok) : option (list otok) := plain [] ts.

(* domain.pkg_use: the split line becomes ONE chunk, split_negations(stable_unique(tokens)) *)
Fixpoint uniq (seen l : list N) : list N :=
  match l with
  | [] => []
  | x :: r => if mem x seen then uniq seen r else x :: uniq (x :: seen) r
  end.
Definition negs (o : list otok) : list N :=
  flat_map (fun t => match t with ONeg f => [f] | OStar => [0] | ONegPre p => [p] | OPos _ => [] end) o.
Definition poss (o : list otok) : list N :=
  flat_map (fun t => match t with OPos f => [f] | _ => [] end) o.
Definition to_chunk (o : list otok) : chunk := mkc KAll (uniq [] (negs o)) (uniq [] (poss o)).

(* ---------------------------------------------------------------- encoders for the harness *)
Definition universe : list N := [10; 11; 12; 13; 14; 15; 100; 101; 105; 200; 300; 305].
  (* a b c d e x_1 | foo_a foo_b foo_x_1 | bar_a | py_t_a py_t_x_1 : USE_EXPAND names and values may
     themselves contain underscores (python_targets_python3_12, cpu_flags_x86_sse4_1) *)
Definition pkgs : list pkg := [(0, 1); (0, 2); (1, 1); (1, 2); (2, 1); (2, 2)].
Definition refused : val := VErr [114; 101; 102; 117; 115; 101; 100].   (* "refused" *)
(* compact results: a rendered set is the bitmask of [universe] (bit i = i-th flag), token and
   chunk lists are flat number lists; [vz] is the constructor the harness writes *)
Definition vz (l : list Z) : val := VL (map VZ l).
Definition bits (s : list N) : Z :=
  Z.of_N (fold_right (fun f acc => (if mem f s then 1 else 0) + 2 * acc) 0 universe).

(* stream "hist": a program and some pre_defaults -> rendered sets for the six packages *)
Definition run_hist (i : prog * list (list N)) : val :=
  match run (fst i) with
  | None => refused
  | Some d => vz (flat_map (fun pre => map (fun p => bits (render d p pre)) pkgs) (snd i))
  end.
(* stream "build": _build_cp_atom_payload(seq, restrict) -> the exact chunk tuple, flattened as
   scope code, key, version/mask, |neg|, neg..., |pos|, pos... *)
Definition zl (l : list N) : list Z := map Z.of_N l.
Definition enc_scope (s : scope) : list Z :=
  match s with
  | KAll => [0; 0; 0]%Z
  | KGlob m => [1; Z.of_N m; 0]%Z
  | KSimple k => [2; Z.of_N k; 0]%Z
  | KVer k v => [3; Z.of_N k; Z.of_N v]%Z
  end.
Definition enc_chunk (c : chunk) : list Z :=
  enc_scope (sc c) ++ [Z.of_nat (length (neg c))] ++ zl (neg c) ++ [Z.of_nat (length (pos c))] ++ zl (pos c).
Definition run_build (i : list chunk * scope) : val := vz (flat_map enc_chunk (build (fst i) (snd i))).
(* stream "split": package_use_splitter on one line; token codes: flag f = f, -f = 1000+f,
   -* = 2000, -P_* = 3000+P *)
Definition enc_otok (t : otok) : Z :=
  match t with
  | OPos f => Z.of_N f
  | ONeg f => Z.of_N (1000 + f)
  | OStar => 2000%Z
  | ONegPre p => Z.of_N (3000 + p)
  end.
Definition run_split (ts : list tok) : val :=
  match split_line ts with
  | None => VNone
  | Some o => VL [vz (map enc_otok o); vz (zl (neg (to_chunk o))); vz (zl (pos (to_chunk o)))]
  end.
