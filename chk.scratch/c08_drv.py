import sys, pathlib
from harness import common, c08
c08.ladder_trees = lambda: []
c08.VERIF = pathlib.Path("/nonexistent")     # no corpus
chk = common.Check("C08", "quick")
chk.finish_orig = chk.finish
c08.main(chk)
for v in chk.violations[:4]:
    print(v["kind"], v["no_input"], str(v["detail"])[:500])
import shutil; shutil.rmtree(chk.scratch, ignore_errors=True)
