(* Proofs_C28.v — lemmas and proofs for C28. *)
From Coq Require Import List NArith ZArith Bool Lia Permutation.
Import ListNotations.
From Verif Require Import Base.Val C18.Fs C18.FsLemmas C28.Model_C28 C28.Spec_C28.
Open Scope N_scope.

(* up to date => nothing is written *)
Lemma up_to_date_no_ops_proof : forall i s old t,
  update_text (u_thin i) (u_scan i) (u_fetch i) = Ok (Some t) ->
  file_data s P = Some old -> read_nl old = t ->
  update_ops i s = Ok (false, []).
Proof.
  intros i s old t Ht Hd Hr. unfold update_ops, update_with. rewrite Ht, Hd, Hr.
  now rewrite str_eqb_refl.
Qed.
