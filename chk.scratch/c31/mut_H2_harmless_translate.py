import sys, subprocess
WT='/tmp/wt_C31_H2_harmless_translate'
P=WT+'/src/pkgcore/ebuild/processor.py'
B=WT+'/data/lib/pkgcore/ebd/ebuild-daemon-lib.bash'
MUTS={
 'M1_no_backslash_escape': (P, 'val = val.replace("\\\\", "\\\\\\\\").replace("\'", "\\\\\'")', 'val = val.replace("\'", "\\\\\'")'),
 'M2_ctl_not_unsafe': (P, '''if any(x in val for x in '\\\\"$`\\x01\\x7f'):''', '''if any(x in val for x in '\\\\"$`'):'''),
 'M3_wire_len_chars': (P, 'return len(string.encode(self.ebd_write.encoding))', 'return len(string)'),
 'M4_lines_joined_by_space': (P, 'return "\\n".join(lines)', 'return " ".join(lines)'),
 'M5_readonly_not_skipped': (P, '''            if key in self._readonly_vars:
                continue
''', ''),
 'M6_enumerate_from_1': (P, "for i, x in enumerate(elements))})", "for i, x in enumerate(elements, 1))})"),
 'M7_nonexported_inverted': (P, '(plain if key in nonexported else exported).append(assign)', '(exported if key in nonexported else plain).append(assign)'),
 'M8_bash_read_without_r': (B, 'read -u ${PKGCORE_EBD_READ_FD} -r -N $1 $2', 'read -u ${PKGCORE_EBD_READ_FD} -N $1 $2'),
 'M9_backtick_not_unsafe': (P, '''if any(x in val for x in '\\\\"$`\\x01\\x7f'):''', '''if any(x in val for x in '\\\\"$\\x01\\x7f'):'''),
 'H1_harmless_refactor': (P, '''        if "'" not in val:
            return f"'{val}'"''', '''        if val.find("'") < 0:
            return "'" + val + "'"'''),
 'H2_harmless_translate': (P, 'val = val.replace("\\\\", "\\\\\\\\").replace("\'", "\\\\\'")', 'val = val.translate({0x5c: "\\\\\\\\", 0x27: "\\\\\'"})'),
}
name=sys.argv[1]
path, old, new = MUTS[name]
s=open(path).read()
assert s.count(old)==1, (name, s.count(old))
open(path,'w').write(s.replace(old,new))
print(subprocess.run(['git','-C',WT,'diff','--stat'],capture_output=True,text=True).stdout)
