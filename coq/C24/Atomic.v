(* C24/Atomic.v — the staged replacement performed by snakeoil's AtomicWriteFile, over the shared
   filesystem model (C18/Fs.v, C18/FsLemmas.v).  Used by C24 (CONTENTS) and C30 (world file).

   AtomicWriteFile issues   open(tmp,"w") ; chmod tmp ; chown tmp ; write tmp .. ; rename tmp p
   i.e. the permission calls come BEFORE the data and a stale regular tmp is truncated rather than
   created, so the op list is not literally an instance of FsLemmas.replace_ops.  The argument is
   the same staging invariant ([FsLemmas.staged], [staged_step], [staged_rename]); this file
   states it for any first op that establishes the invariant and any interleaving of appends and
   permission ops on tmp:

   atomic_replace_gen   every crash prefix maps p to its old node or to the node tmp had when
                        all staging ops had run, and every other path but tmp to its old node
   atomic_ops_crash     the same for [Model_C24.atomic_ops] with the final node given explicitly:
                        complete data, the requested mode
   atomic_ops_eio       an I/O error at any op followed by discard() (unlink tmp) leaves p old or
                        complete, other paths untouched, and no tmp behind. *)
From Coq Require Import List NArith ZArith Bool Lia.
Import ListNotations.
From Verif Require Import Base.Val C18.Fs C18.FsLemmas C24.Model_C24.

Lemma is_mid_step s0 tmp o : is_mid tmp o ->
  forall s s', staged s0 tmp s -> apply_op s o = Some s' -> staged s0 tmp s'.
Proof. intros H. apply staged_step. exact H. Qed.

Lemma staged_mid s0 tmp mid : Forall (is_mid tmp) mid ->
  Forall (fun o => forall s s', staged s0 tmp s -> apply_op s o = Some s' -> staged s0 tmp s') mid.
Proof. intro H. eapply Forall_impl; [|exact H]. intros o Ho. now apply is_mid_step. Qed.

Lemma rename_tmp_gone s0 tmp p s2 s3 :
  tmp <> p -> staged s0 tmp s2 -> apply_op s2 (Rename tmp p) = Some s3 -> lookup s3 tmp = None.
Proof.
  intros Hne Hs2 Hr. cbn in Hr. destruct Hs2 as [_ (d & m & u & g & t & i & Ht & Hpriv)].
  rewrite Ht in Hr. destruct p as [|p0 p]; [discriminate|].
  destruct (path_eq_dec tmp (p0 :: p)) as [|Hnb]; [contradiction|].
  destruct (negb (isdir s2 (parent (p0 :: p)))); [discriminate|]. cbn [is_dir_node] in Hr.
  assert (Hgone : lookup (set_node (remove s2 tmp) (p0 :: p) (File d m u g t i)) tmp = None)
    by (rewrite lookup_set_other by assumption; apply lookup_remove_same).
  destruct (lookup s2 (p0 :: p)) as [n|] eqn:Hb.
  - destruct (is_dir_node n); [discriminate|]. cbn [ino_of] in Hr.
    destruct (ino_of n) as [j|] eqn:Hj.
    + destruct (N.eqb i j) eqn:E.
      * apply N.eqb_eq in E; subst j. exfalso. eapply (Hpriv (p0 :: p) n); eauto.
      * now injection Hr as <-.
    + now injection Hr as <-.
  - now injection Hr as <-.
Qed.

Theorem atomic_replace_gen : forall s tmp p first mid k,
  tmp <> p ->
  (forall s1, apply_op s first = Some s1 -> staged s tmp s1) ->
  Forall (is_mid tmp) mid ->
  let ops := first :: mid ++ [Rename tmp p] in
  let sk := run (firstn k ops) s in
  (forall q, q <> p -> q <> tmp -> lookup sk q = lookup s q) /\
  (lookup sk p = lookup s p \/
   exists s2, run_opt (first :: mid) s = Some s2 /\ lookup sk p = lookup s2 tmp /\
              lookup sk tmp = None /\ length ops <= k).
Proof.
  intros s tmp p first mid k Hne Hfirst Hmid0 ops sk. subst ops sk.
  destruct k as [|k]; [cbn; split; [reflexivity|now left]|].
  cbn [firstn run run_opt]. destruct (apply_op s first) as [s1|] eqn:Hc;
    [|split; [reflexivity|now left]].
  pose proof (Hfirst _ eq_refl) as Hs1.
  pose proof (staged_mid s tmp mid Hmid0) as Hmid.
  destruct (Nat.le_gt_cases k (length mid)) as [Hk|Hk].
  - rewrite firstn_app. replace (k - length mid) with 0 by lia. cbn [firstn]. rewrite app_nil_r.
    pose proof (run_prefix_inv _ _ Hmid s1 k Hs1) as [Hfr _].
    split; [intros q _ Hq; now apply Hfr|left; apply Hfr; congruence].
  - rewrite firstn_all2 by (rewrite app_length; cbn; lia).
    rewrite run_app. destruct (run_opt mid s1) as [s2|] eqn:Hm.
    + pose proof (run_inv _ _ Hmid s1 Hs1) as Hs2. rewrite (run_opt_run _ _ _ Hm) in Hs2.
      cbn [run]. destruct (apply_op s2 (Rename tmp p)) as [s3|] eqn:Hr.
      * destruct (staged_rename _ _ _ _ _ Hne Hs2 Hr) as [Hfr Hp].
        split; [exact Hfr|]. right. exists s2. repeat split; auto.
        -- eapply rename_tmp_gone; eauto.
        -- cbn [length]. rewrite app_length. cbn [length]. lia.
      * destruct Hs2 as [Hfr _]. split; [intros q _ Hq; now apply Hfr|left; apply Hfr; congruence].
    + pose proof (run_inv _ _ Hmid s1 Hs1) as [Hfr _].
      split; [intros q _ Hq; now apply Hfr|left; apply Hfr; congruence].
Qed.

(* ------------------------------------------------------------------ the first op *)
Lemma keeps_truncate : keeps_file truncate_data.
Proof. intros d m u g t i. cbn. eauto 10. Qed.

Lemma staged_first s tmp s1 :
  tmp_ok s tmp -> apply_op s (first_op s tmp) = Some s1 -> staged s tmp s1.
Proof.
  intros [Hn|(d & m & u & g & t & i & Ht & Hpriv)] H; unfold first_op in H.
  - rewrite Hn in H. now apply staged_create in H.
  - rewrite Ht in H. cbn in H. rewrite Ht in H.
    assert (Hst : staged s tmp s) by (split; [reflexivity|exists d, m, u, g, t, i; auto]).
    eapply staged_update; eauto using keeps_truncate.
Qed.

Lemma atomic_mid tmp perms uid gid chunks :
  Forall (is_mid tmp) (Chmod tmp perms :: Chown tmp uid gid :: appends tmp chunks).
Proof.
  constructor; [right; reflexivity|]. constructor; [right; reflexivity|].
  unfold appends. apply Forall_map. apply Forall_forall. intros d _. left. eauto.
Qed.

(* ------------------------------------------------------------------ the complete staged node *)
Lemma run_opt_appends_file tmp chunks : forall s s' d m u g t i,
  lookup s tmp = Some (File d m u g t i) ->
  run_opt (appends tmp chunks) s = Some s' ->
  exists t', lookup s' tmp = Some (File (d ++ concat chunks) m u g t' i).
Proof.
  intros s s' d m u g t i Ht H.
  destruct (run_opt_appends_tmp _ _ _ _ _ _ _ _ _ _ Ht H) as [[-> ->]|H2].
  - exists t. cbn. now rewrite app_nil_r.
  - eauto.
Qed.

Lemma first_op_node s tmp s1 :
  apply_op s (first_op s tmp) = Some s1 ->
  exists m u g t i, lookup s1 tmp = Some (File [] m u g t i).
Proof.
  unfold first_op. destruct (lookup s tmp) as [n|] eqn:Ht.
  - destruct n; cbn; try (destruct (can_create s tmp); [|discriminate]; intro H; injection H as <-;
      rewrite lookup_set_same; eauto 10).
    rewrite Ht. intro H. pose proof (update_self _ _ _ _ _ H Ht) as H1. cbn in H1. eauto 10.
  - cbn. destruct (can_create s tmp); [|discriminate]. intro H; injection H as <-.
    rewrite lookup_set_same; eauto 10.
Qed.

Lemma staging_node s tmp perms uid gid chunks s2 :
  run_opt (first_op s tmp :: Chmod tmp perms :: Chown tmp uid gid :: appends tmp chunks) s = Some s2 ->
  is_file_with (concat chunks) perms (lookup s2 tmp).
Proof.
  cbn [run_opt]. destruct (apply_op s (first_op s tmp)) as [s1|] eqn:H1; [|discriminate].
  destruct (first_op_node _ _ _ H1) as (m & u & g & t & i & Ht1).
  destruct (apply_op s1 (Chmod tmp perms)) as [s1a|] eqn:H2; [|discriminate].
  destruct (apply_op s1a (Chown tmp uid gid)) as [s1b|] eqn:H3; [|discriminate].
  intro H4.
  cbn in H2. rewrite Ht1 in H2. cbn in H2.
  pose proof (update_self _ _ _ _ _ H2 Ht1) as Ht2. cbn in Ht2.
  cbn in H3. pose proof (update_self _ _ _ _ _ H3 Ht2) as Ht3. cbn in Ht3.
  destruct (run_opt_appends_file _ _ _ _ _ _ _ _ _ _ Ht3 H4) as [t' Ht4].
  cbn in Ht4. unfold is_file_with. eauto 10.
Qed.

(* ------------------------------------------------------------------ crash prefixes *)
Theorem atomic_ops_crash : forall s tmp p perms uid gid chunks k,
  tmp <> p -> tmp_ok s tmp ->
  let sk := run (firstn k (atomic_ops s tmp p perms uid gid chunks)) s in
  (forall q, q <> p -> q <> tmp -> lookup sk q = lookup s q) /\
  (lookup sk p = lookup s p \/
   (is_file_with (concat chunks) perms (lookup sk p) /\ lookup sk tmp = None /\
    length (atomic_ops s tmp p perms uid gid chunks) <= k)).
Proof.
  intros s tmp p perms uid gid chunks k Hne Hok sk. subst sk. unfold atomic_ops.
  destruct (atomic_replace_gen s tmp p (first_op s tmp)
              (Chmod tmp perms :: Chown tmp uid gid :: appends tmp chunks) k Hne
              (fun s1 => staged_first s tmp s1 Hok) (atomic_mid tmp perms uid gid chunks))
    as [Hfr Hp].
  split; [exact Hfr|].
  destruct Hp as [Hp|(s2 & Hs2 & Hp & Hg & Hk)]; [now left|right].
  split; [|split; assumption]. rewrite Hp. eapply staging_node; eauto.
Qed.

(* a completed flush (every call succeeded) has installed the new file *)
Theorem atomic_ops_complete : forall s tmp p perms uid gid chunks s',
  tmp <> p -> tmp_ok s tmp ->
  run_opt (atomic_ops s tmp p perms uid gid chunks) s = Some s' ->
  is_file_with (concat chunks) perms (lookup s' p) /\ lookup s' tmp = None /\
  (forall q, q <> p -> q <> tmp -> lookup s' q = lookup s q).
Proof.
  intros s tmp p perms uid gid chunks s' Hne Hok H.
  unfold atomic_ops in H.
  change (first_op s tmp :: (Chmod tmp perms :: Chown tmp uid gid :: appends tmp chunks) ++ [Rename tmp p])
    with ((first_op s tmp :: Chmod tmp perms :: Chown tmp uid gid :: appends tmp chunks) ++ [Rename tmp p]) in H.
  rewrite run_opt_app in H.
  destruct (run_opt (first_op s tmp :: Chmod tmp perms :: Chown tmp uid gid :: appends tmp chunks) s)
    as [s2|] eqn:H2; [|discriminate].
  cbn [run_opt] in H. destruct (apply_op s2 (Rename tmp p)) as [s3|] eqn:Hr; [|discriminate].
  injection H as <-.
  assert (Hs2 : staged s tmp s2).
  { pose proof (staged_mid s tmp _ (atomic_mid tmp perms uid gid chunks)) as Hmid.
    set (mid := Chmod tmp perms :: Chown tmp uid gid :: appends tmp chunks) in *.
    change (run_opt (first_op s tmp :: mid) s = Some s2) in H2.
    cbn [run_opt] in H2. destruct (apply_op s (first_op s tmp)) as [s1|] eqn:H1; [|discriminate].
    pose proof (staged_first _ _ _ Hok H1) as Hs1.
    pose proof (run_inv _ _ Hmid s1 Hs1) as Hx.
    now rewrite (run_opt_run _ _ _ H2) in Hx. }
  destruct (staged_rename _ _ _ _ _ Hne Hs2 Hr) as [Hfr Hp].
  split; [|split].
  - rewrite Hp. eapply staging_node; eauto.
  - eapply rename_tmp_gone; eauto.
  - exact Hfr.
Qed.

(* ------------------------------------------------------------------ I/O error + discard() *)
Lemma unlink_frame s tmp q : q <> tmp -> lookup (run [Unlink tmp] s) q = lookup s q.
Proof.
  intro Hq. cbn. destruct (lookup s tmp) as [n|]; [|reflexivity].
  destruct (is_dir_node n); [reflexivity|]. now apply lookup_remove_other.
Qed.

Lemma unlink_gone s tmp : not_dir (lookup s tmp) -> lookup (run [Unlink tmp] s) tmp = None.
Proof.
  unfold not_dir. cbn. destruct (lookup s tmp) as [n|] eqn:Ht; [|now rewrite Ht].
  intros ->. apply lookup_remove_same.
Qed.

Theorem atomic_ops_eio : forall s tmp p perms uid gid chunks k,
  tmp <> p -> tmp_ok s tmp -> 1 <= k ->
  let sk := fault_state s tmp (atomic_ops s tmp p perms uid gid chunks) k true in
  (forall q, q <> p -> q <> tmp -> lookup sk q = lookup s q) /\
  (lookup sk p = lookup s p \/ is_file_with (concat chunks) perms (lookup sk p)) /\
  lookup sk tmp = None.
Proof.
  intros s tmp p perms uid gid chunks k Hne Hok Hk sk. subst sk. unfold fault_state.
  replace (true && Nat.leb 1 k) with true by (symmetry; apply Nat.leb_le; exact Hk).
  destruct (atomic_ops_crash s tmp p perms uid gid chunks k Hne Hok) as [Hfr Hp].
  set (sk := run (firstn k (atomic_ops s tmp p perms uid gid chunks)) s) in *.
  assert (Hp' : p <> tmp) by congruence.
  split; [|split].
  - intros q Hq1 Hq2. rewrite unlink_frame by exact Hq2. now apply Hfr.
  - rewrite unlink_frame by exact Hp'. destruct Hp as [Hp|[Hp _]]; [now left|now right].
  - apply unlink_gone.
    (* tmp is never a directory in a prefix state: it is a file while staged, absent after rename,
       or as in s (absent or a file) *)
    destruct Hp as [Hp|[_ [Hg _]]]; [|now rewrite Hg].
    clear Hp Hfr. subst sk. unfold atomic_ops.
    destruct k as [|k]; [lia|]. cbn [firstn run].
    destruct (apply_op s (first_op s tmp)) as [s1|] eqn:H1.
    + pose proof (staged_first _ _ _ Hok H1) as Hs1.
      set (mid := Chmod tmp perms :: Chown tmp uid gid :: appends tmp chunks).
      pose proof (staged_mid s tmp mid (atomic_mid tmp perms uid gid chunks)) as Hmid.
      destruct (Nat.le_gt_cases k (length mid)) as [Hk2|Hk2].
      * rewrite firstn_app. replace (k - length mid) with 0 by lia. cbn [firstn]. rewrite app_nil_r.
        pose proof (run_prefix_inv _ _ Hmid s1 k Hs1) as [_ (d & m & u & g & t & i & Ht & _)].
        rewrite Ht. reflexivity.
      * rewrite firstn_all2 by (rewrite app_length; cbn [length]; lia).
        rewrite run_app. destruct (run_opt mid s1) as [s2|] eqn:Hm.
        -- pose proof (run_inv _ _ Hmid s1 Hs1) as Hs2. rewrite (run_opt_run _ _ _ Hm) in Hs2.
           cbn [run]. destruct (apply_op s2 (Rename tmp p)) as [s3|] eqn:Hr.
           ++ rewrite (rename_tmp_gone _ _ _ _ _ Hne Hs2 Hr). exact I.
           ++ destruct Hs2 as [_ (d & m & u & g & t & i & Ht & _)]. rewrite Ht. reflexivity.
        -- pose proof (run_inv _ _ Hmid s1 Hs1) as [_ (d & m & u & g & t & i & Ht & _)].
           rewrite Ht. reflexivity.
    + destruct Hok as [Hn|(d & m & u & g & t & i & Ht & _)]; [now rewrite Hn|now rewrite Ht].
Qed.
