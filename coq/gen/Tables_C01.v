(* GENERATED from ebuild/cpv.py (suffix_value, suffix_regexp, isvalid_version_re) and ebuild/restricts.py (_VersionMatch._convert_op2str) by harness/tables.py on every run — do not edit. *)
From Coq Require Import List ZArith NArith Bool.
Import ListNotations.
From Verif Require Import Base.Val.

(* cpv.suffix_value, in source order *)
Definition suffix_value : list (str * Z) :=
  [([112;114;101]%N, (-2)%Z); ([112]%N, 1%Z); ([97;108;112;104;97]%N, (-4)%Z); ([98;101;116;97]%N, (-3)%Z); ([114;99]%N, (-1)%Z)].

(* alternatives of cpv.suffix_regexp's first group, in regex priority order *)
Definition suffix_regexp_names : list str :=
  [[97;108;112;104;97]%N; [98;101;116;97]%N; [114;99]%N; [112;114;101]%N; [112]%N].

(* alternatives of the suffix group of cpv.isvalid_version_re, in regex priority order *)
Definition valid_suffix_names : list str :=
  [[112;114;101]%N; [112]%N; [98;101;116;97]%N; [97;108;112;104;97]%N; [114;99]%N].

(* restricts._VersionMatch._convert_op2str: result set -> operator text, in source order *)
Definition convert_op2str : list (list Z * str) :=
  [([(-1)%Z], [60]%N); ([(-1)%Z; 0%Z], [60;61]%N); ([0%Z], [61]%N); ([0%Z; 1%Z], [62;61]%N); ([1%Z], [62]%N)].
